//! Scripted radios, timer, RNG and a tiny executor: the boundary at which the MAC monitors
//! drive `nb_device::Device` and `async_device::Device` and record their histories
//! (DESIGN 4.2, 4.3). Everything is single-threaded per case.

use crate::regions::{bw_hz, sf_num, Reg};
use lorawan_device::async_device;
use lorawan_device::nb_device;
use lorawan_device::region;
use lorawan_device::{AppEui, AppKey, AppSKey, DevAddr, DevEui, JoinMode, NwkSKey, RngCore};
use lrv_core::{trap, Prng, Trapped};
use std::cell::RefCell;
use std::future::Future;
use std::pin::Pin;
use std::rc::Rc;
use std::task::{Context, Poll, RawWaker, RawWakerVTable, Waker};

pub const RNG_BUDGET: u32 = 4096;
pub const POLL_BUDGET: u32 = 10_000;
pub const LEAD_MS: u32 = 50;

#[derive(Clone, Debug, PartialEq)]
pub enum Ev {
    Tx { pw: i8, freq: u32, sf: u8, bw: u32, bytes: Vec<u8> },
    /// async setup_rx / nb RxRequest. `single_ms` None = continuous (Class C) or nb request.
    SetupRx { freq: u32, sf: u8, bw: u32, single_ms: Option<u32>, max_len: u8 },
    RxSingle,
    RxContinuous,
    LowPower,
    CancelRx,
    TimerReset,
    TimerAt(u64),
    Fault(&'static str),
}

#[derive(Default)]
pub struct LogInner {
    pub ev: Vec<Ev>,
    pub draws_in_call: u32,
    pub draws_total: u64,
    pub radio_calls: usize,
    /// Inject an error into radio call number k (0-based, counted over the log's lifetime).
    pub fault_at: Option<usize>,
    /// a second fault position armed at the same time (two radio calls in a row failing)
    pub fault_also: Option<usize>,
    pub faults_injected: u32,
    // async radio script
    pub rx_single_queue: std::collections::VecDeque<Option<Vec<u8>>>,
    /// Class C frames per gap: [0] before RX1 (and outside transactions), [1] between RX1 and RX2.
    pub rx_cont_queue: [std::collections::VecDeque<Vec<u8>>; 2],
    pub rx_single_count: usize,
    pub tx_done_ms: u32,
    pub snr: i8,
    /// Next value of the scripted counter RNG (shared so the harness can set it any time).
    pub rng_next: u32,
    /// scripted stream: this many further draws repeat the current value before it starts to count up
    /// (a stubborn stretch; the stream still visits every value afterwards)
    pub rng_hold: u32,
    /// Board lead time declared through `Timings` (ms).
    pub lead_ms: u32,
    /// nb front-end only: the radio answers a TxRequest with `Txing` and reports completion
    /// later through a PHY event (the SendingJoin / SendingData states), instead of `TxDone`.
    pub tx_async: bool,
    /// async front-end: what the board declares as `get_rx_window_buffer` (None: the trait's
    /// default, equal to the lead time)
    pub buffer_ms: Option<u32>,
    /// nb front-end only: a fault injected at a TxRequest shows as a reply of the wrong kind
    /// (`Ok(Response::Idle)`: the radio took the frame and says it is idle) instead of an `Err`
    pub odd_reply: bool,
    /// nb front-end only: the board declares a positive window offset (`get_rx_window_offset_ms` =
    /// +lead_ms: its windows are to be opened that much *after* the nominal instant)
    pub late: bool,
}

pub type Log = Rc<RefCell<LogInner>>;

fn radio_call(log: &Log, what: &'static str) -> Result<(), RadioErr> {
    let mut l = log.borrow_mut();
    let k = l.radio_calls;
    l.radio_calls += 1;
    if l.fault_at == Some(k) || l.fault_also == Some(k) {
        l.faults_injected += 1;
        l.ev.push(Ev::Fault(what));
        return Err(RadioErr(what));
    }
    Ok(())
}

#[derive(Debug, Clone, PartialEq)]
pub struct RadioErr(pub &'static str);

// ---- RNG ------------------------------------------------------------------------------------

/// The RNG handed to the device. Scripted: first draw `next`, then next+1, ... (so every retry
/// loop visits every index) or, when `prng` is set, a seeded stream. Counts draws per device
/// call; exceeding the budget unwinds with "rng-budget" (bounded-progress trap).
pub struct SRng {
    pub log: Log,
    pub prng: Option<Prng>,
}

impl RngCore for SRng {
    fn next_u32(&mut self) -> u32 {
        {
            let mut l = self.log.borrow_mut();
            l.draws_in_call += 1;
            l.draws_total += 1;
            if l.draws_in_call > RNG_BUDGET {
                drop(l);
                panic!("rng-budget");
            }
        }
        match &mut self.prng {
            Some(p) => p.next_u32(),
            None => {
                let mut l = self.log.borrow_mut();
                let v = l.rng_next;
                if l.rng_hold > 0 {
                    l.rng_hold -= 1;
                } else {
                    l.rng_next = v.wrapping_add(1);
                }
                v
            }
        }
    }
    fn next_u64(&mut self) -> u64 {
        ((self.next_u32() as u64) << 32) | self.next_u32() as u64
    }
    fn fill_bytes(&mut self, dest: &mut [u8]) {
        for c in dest.chunks_mut(4) {
            let v = self.next_u32().to_le_bytes();
            c.copy_from_slice(&v[..c.len()]);
        }
    }
    fn try_fill_bytes(&mut self, dest: &mut [u8]) -> Result<(), rand_core::Error> {
        self.fill_bytes(dest);
        Ok(())
    }
}

// ---- nb radio ---------------------------------------------------------------------------------

pub struct NbRadio<const PW: u8, const G: i8> {
    pub log: Log,
    pub rx: Vec<u8>,
}

#[derive(Debug)]
pub enum NbPhyEvent {
    RxDone(Vec<u8>),
    TxDone(u32),
    Nothing,
}

impl<const PW: u8, const G: i8> nb_device::radio::PhyRxTx for NbRadio<PW, G> {
    type PhyEvent = NbPhyEvent;
    type PhyError = RadioErr;
    type PhyResponse = ();
    const ANTENNA_GAIN: i8 = G;
    const MAX_RADIO_POWER: u8 = PW;

    fn get_mut_radio(&mut self) -> &mut Self {
        self
    }
    fn get_received_packet(&mut self) -> &mut [u8] {
        &mut self.rx
    }
    fn handle_event(&mut self, event: nb_device::radio::Event<'_, Self>) -> Result<nb_device::radio::Response<Self>, RadioErr> {
        use nb_device::radio::{Event, Response};
        match event {
            Event::TxRequest(cfg, bytes) => {
                self.log.borrow_mut().ev.push(Ev::Tx { pw: cfg.pw, freq: cfg.rf.frequency, sf: sf_num(cfg.rf.bb.sf), bw: bw_hz(cfg.rf.bb.bw), bytes: bytes.to_vec() });
                let odd = self.log.borrow().odd_reply;
                if let Err(e) = radio_call(&self.log, if odd { "tx-odd-reply" } else { "tx" }) {
                    if odd {
                        return Ok(Response::Idle);
                    }
                    return Err(e);
                }
                if self.log.borrow().tx_async {
                    return Ok(Response::Txing);
                }
                let ms = self.log.borrow().tx_done_ms;
                Ok(Response::TxDone(ms))
            }
            Event::RxRequest(rf) => {
                self.log.borrow_mut().ev.push(Ev::SetupRx { freq: rf.frequency, sf: sf_num(rf.bb.sf), bw: bw_hz(rf.bb.bw), single_ms: None, max_len: rf.max_payload_len });
                radio_call(&self.log, "rx_request")?;
                Ok(Response::Rxing)
            }
            Event::CancelRx => {
                self.log.borrow_mut().ev.push(Ev::CancelRx);
                radio_call(&self.log, "cancel_rx")?;
                Ok(Response::Idle)
            }
            Event::Phy(p) => {
                radio_call(&self.log, "phy")?;
                match p {
                    NbPhyEvent::RxDone(b) => {
                        self.rx = b;
                        let snr = self.log.borrow().snr;
                        Ok(Response::RxDone(nb_device::radio::RxQuality::new(-80, snr)))
                    }
                    NbPhyEvent::TxDone(ms) => Ok(Response::TxDone(ms)),
                    NbPhyEvent::Nothing => Ok(Response::Idle),
                }
            }
        }
    }
}

impl<const PW: u8, const G: i8> lorawan_device::Timings for NbRadio<PW, G> {
    fn get_rx_window_offset_ms(&self) -> i32 {
        let l = self.log.borrow();
        if l.late { l.lead_ms as i32 } else { -(l.lead_ms as i32) }
    }
    fn get_rx_window_duration_ms(&self) -> u32 {
        800
    }
}

// ---- async radio ------------------------------------------------------------------------------

pub struct AsRadio<const PW: u8, const G: i8> {
    pub log: Log,
}

pub struct AsTimer {
    pub log: Log,
}

struct PendingForever;
impl Future for PendingForever {
    type Output = ();
    fn poll(self: Pin<&mut Self>, _cx: &mut Context<'_>) -> Poll<()> {
        Poll::Pending
    }
}

impl<const PW: u8, const G: i8> async_device::radio::PhyRxTx for AsRadio<PW, G> {
    type PhyError = RadioErr;
    const ANTENNA_GAIN: i8 = G;
    const MAX_RADIO_POWER: u8 = PW;

    async fn tx(&mut self, cfg: async_device::radio::TxConfig, buf: &[u8]) -> Result<u32, RadioErr> {
        self.log.borrow_mut().ev.push(Ev::Tx { pw: cfg.pw, freq: cfg.rf.frequency, sf: sf_num(cfg.rf.bb.sf), bw: bw_hz(cfg.rf.bb.bw), bytes: buf.to_vec() });
        radio_call(&self.log, "tx")?;
        Ok(self.log.borrow().tx_done_ms)
    }
    async fn setup_rx(&mut self, config: async_device::radio::RxConfig) -> Result<(), RadioErr> {
        let single_ms = match config.mode {
            async_device::radio::RxMode::Single { ms } => Some(ms),
            async_device::radio::RxMode::Continuous => None,
        };
        self.log.borrow_mut().ev.push(Ev::SetupRx { freq: config.rf.frequency, sf: sf_num(config.rf.bb.sf), bw: bw_hz(config.rf.bb.bw), single_ms, max_len: config.rf.max_payload_len });
        radio_call(&self.log, "setup_rx")
    }
    async fn rx_continuous(&mut self, rx_buf: &mut [u8]) -> Result<(usize, async_device::radio::RxQuality), RadioErr> {
        let next = {
            let mut l = self.log.borrow_mut();
            let phase = l.rx_single_count.min(1);
            l.rx_cont_queue[phase].pop_front()
        };
        match next {
            // an empty entry of the script: the radio reports an error (a frame with a bad CRC or header
            // overheard on the RX2 channel, say)
            Some(f) if f.is_empty() => {
                let mut l = self.log.borrow_mut();
                l.ev.push(Ev::RxContinuous);
                l.ev.push(Ev::Fault("rx_continuous"));
                Err(RadioErr("rx_continuous"))
            }
            Some(f) => {
                self.log.borrow_mut().ev.push(Ev::RxContinuous);
                radio_call(&self.log, "rx_continuous")?;
                let n = f.len().min(rx_buf.len());
                rx_buf[..n].copy_from_slice(&f[..n]);
                let snr = self.log.borrow().snr;
                Ok((n, async_device::radio::RxQuality::new(-80, snr)))
            }
            None => {
                PendingForever.await;
                unreachable!()
            }
        }
    }
    async fn rx_single(&mut self, buf: &mut [u8]) -> Result<async_device::radio::RxStatus, RadioErr> {
        {
            let mut l = self.log.borrow_mut();
            l.ev.push(Ev::RxSingle);
            l.rx_single_count += 1;
        }
        radio_call(&self.log, "rx_single")?;
        let next = self.log.borrow_mut().rx_single_queue.pop_front();
        match next {
            Some(Some(f)) => {
                let n = f.len().min(buf.len());
                buf[..n].copy_from_slice(&f[..n]);
                let snr = self.log.borrow().snr;
                Ok(async_device::radio::RxStatus::Rx(n, async_device::radio::RxQuality::new(-80, snr)))
            }
            _ => Ok(async_device::radio::RxStatus::RxTimeout),
        }
    }
    async fn low_power(&mut self) -> Result<(), RadioErr> {
        self.log.borrow_mut().ev.push(Ev::LowPower);
        radio_call(&self.log, "low_power")
    }
}

impl<const PW: u8, const G: i8> async_device::Timings for AsRadio<PW, G> {
    fn get_rx_window_lead_time_ms(&self) -> u32 {
        self.log.borrow().lead_ms
    }
    fn get_rx_window_buffer(&self) -> u32 {
        let l = self.log.borrow();
        l.buffer_ms.unwrap_or(l.lead_ms)
    }
}

impl async_device::radio::Timer for AsTimer {
    fn reset(&mut self) {
        self.log.borrow_mut().ev.push(Ev::TimerReset);
    }
    async fn at(&mut self, millis: u64) {
        self.log.borrow_mut().ev.push(Ev::TimerAt(millis));
    }
    async fn delay_ms(&mut self, millis: u64) {
        self.log.borrow_mut().ev.push(Ev::TimerAt(millis));
    }
}

// ---- executor ---------------------------------------------------------------------------------

fn noop_waker() -> Waker {
    fn clone(_: *const ()) -> RawWaker {
        RawWaker::new(std::ptr::null(), &VT)
    }
    fn noop(_: *const ()) {}
    static VT: RawWakerVTable = RawWakerVTable::new(clone, noop, noop, noop);
    unsafe { Waker::from_raw(RawWaker::new(std::ptr::null(), &VT)) }
}

/// Polls `f` to completion; unwinds with "poll-budget" if it does not finish within the
/// budget (our scripted leaf futures complete immediately or stay pending forever only
/// inside a `select` whose other arm completes, so a correct device never needs many polls).
pub fn block_on<F: Future>(f: F) -> F::Output {
    let mut f = std::pin::pin!(f);
    let w = noop_waker();
    let mut cx = Context::from_waker(&w);
    for _ in 0..POLL_BUDGET {
        if let Poll::Ready(v) = f.as_mut().poll(&mut cx) {
            return v;
        }
    }
    panic!("poll-budget");
}

// ---- unified device ---------------------------------------------------------------------------

#[derive(Clone, Copy, Debug, PartialEq, Eq, Hash)]
pub enum Front {
    Nb,
    Async,
    AsyncC,
}

pub const FRONTS: [Front; 3] = [Front::Nb, Front::Async, Front::AsyncC];

impl Front {
    pub fn name(self) -> &'static str {
        match self {
            Front::Nb => "nb",
            Front::Async => "async",
            Front::AsyncC => "async+classC",
        }
    }
}

/// Outcome of one device API call as seen by the application.
#[derive(Clone, Debug, PartialEq)]
pub enum Resp {
    JoinSuccess,
    NoJoinAccept,
    DownlinkReceived(u32),
    NoAck,
    RxComplete,
    SessionExpired,
    /// Error returned by the API (radio / state / mac), rendered.
    Error(String),
    /// A trapped panic (message, location).
    Panic(String, String),
}

impl Resp {
    pub fn kind(&self) -> &'static str {
        match self {
            Resp::JoinSuccess => "JoinSuccess",
            Resp::NoJoinAccept => "NoJoinAccept",
            Resp::DownlinkReceived(_) => "DownlinkReceived",
            Resp::NoAck => "NoAck",
            Resp::RxComplete => "RxComplete",
            Resp::SessionExpired => "SessionExpired",
            Resp::Error(_) => "Error",
            Resp::Panic(..) => "Panic",
        }
    }
}

/// What the network does during the receive opportunities of one transaction.
#[derive(Clone, Debug, Default)]
pub struct Script {
    /// Class C frames heard before RX1 opens (async+classC only); an empty frame stands for a receive error
    /// reported by the radio (also in `between`).
    pub pre_rx1: Vec<Vec<u8>>,
    /// Frames heard in RX1, in order (nb: all delivered until the window closes; async: only
    /// the first, one `rx_single` result per window).
    pub rx1: Vec<Vec<u8>>,
    pub between: Vec<Vec<u8>>,
    pub rx2: Vec<Vec<u8>>,
    /// nb front-end only: calls an application makes at the wrong moment, (driver loop step, call).
    pub intrude: Vec<(u32, Intrusion)>,
}

/// An event handed to the nb state machine in the middle of a transaction.
#[derive(Clone, Debug)]
pub enum Intrusion {
    Send,
    SendConfirmed,
    Join,
    /// a radio event with a frame nobody can accept (random bytes)
    StrayRx(Vec<u8>),
    StrayNothing,
    /// a timer that fires while the frame is still on the air (the window timer of an earlier
    /// transaction, say); only delivered while the radio transmits - at any other moment of a
    /// transaction a timeout is the event the state machine is waiting for
    StrayTimeout,
    /// the application reads the session in the middle of the transaction (to persist it)
    SessionSnapshot,
}

impl Script {
    pub fn silent() -> Self {
        Script::default()
    }
    pub fn rx1(f: Vec<u8>) -> Self {
        Script { rx1: vec![f], ..Default::default() }
    }
    pub fn rx2(f: Vec<u8>) -> Self {
        Script { rx2: vec![f], ..Default::default() }
    }
}

pub enum Action<'a> {
    Join,
    Send { data: &'a [u8], port: u8, confirmed: bool },
}

pub type NbDev<const PW: u8, const G: i8, const N: usize = 256, const D: usize = 4> = nb_device::Device<NbRadio<PW, G>, SRng, N, D>;
pub type AsDev<const PW: u8, const G: i8> = async_device::Device<AsRadio<PW, G>, AsTimer, SRng, 256, 4>;

pub enum AnyDev<const PW: u8, const G: i8> {
    Nb(Box<NbDev<PW, G>>),
    As(Box<AsDev<PW, G>>),
}

pub struct Dev<const PW: u8 = 20, const G: i8 = 0> {
    pub front: Front,
    pub reg: Reg,
    pub log: Log,
    pub dev: AnyDev<PW, G>,
    pub creds: Creds,
    /// nb: per-window responses of the last transaction (NoUpdate etc.), for C07.
    pub window_notes: Vec<String>,
}

#[derive(Clone, Debug)]
pub struct Creds {
    pub dev_eui: [u8; 8], // wire order
    pub app_eui: [u8; 8],
    pub app_key: [u8; 16],
}

pub fn region_config(reg: Reg, bias: Option<(u8, usize)>) -> region::Configuration {
    use region::{Region, Subband};
    fn sb(n: u8) -> Subband {
        match n {
            1 => Subband::_1,
            2 => Subband::_2,
            3 => Subband::_3,
            4 => Subband::_4,
            5 => Subband::_5,
            6 => Subband::_6,
            7 => Subband::_7,
            _ => Subband::_8,
        }
    }
    match reg {
        Reg::EU868 => region::Configuration::new(Region::EU868),
        Reg::EU433 => region::Configuration::new(Region::EU433),
        Reg::IN865 => region::Configuration::new(Region::IN865),
        Reg::AS923_1 => region::Configuration::new(Region::AS923_1),
        Reg::AS923_2 => region::Configuration::new(Region::AS923_2),
        Reg::AS923_3 => region::Configuration::new(Region::AS923_3),
        Reg::AS923_4 => region::Configuration::new(Region::AS923_4),
        Reg::US915 => {
            let mut r = region::US915::new();
            if let Some((s, n)) = bias {
                if n == 1 {
                    r.set_join_bias(sb(s));
                } else {
                    r.set_join_bias_and_noncompliant_retries(sb(s), n);
                }
            }
            r.into()
        }
        Reg::AU915 => {
            let mut r = region::AU915::new();
            if let Some((s, n)) = bias {
                if n == 1 {
                    r.set_join_bias(sb(s));
                } else {
                    r.set_join_bias_and_noncompliant_retries(sb(s), n);
                }
            }
            r.into()
        }
    }
}

pub struct DevOpts {
    pub bias: Option<(u8, usize)>,
    /// None: scripted counter RNG starting at `rng_start`; Some(seed): seeded PRNG.
    pub rng_seed: Option<u64>,
    pub rng_start: u32,
}

impl Default for DevOpts {
    fn default() -> Self {
        DevOpts { bias: None, rng_seed: None, rng_start: 0 }
    }
}

impl<const PW: u8, const G: i8> Dev<PW, G> {
    pub fn new(front: Front, reg: Reg, creds: Creds, opts: &DevOpts) -> Self {
        // nb front-end: half of all devices (chosen by a credential bit, so that twin devices
        // agree) sit on a radio that completes TX asynchronously (SendingJoin / SendingData).
        let tx_async = front == Front::Nb && creds.dev_eui[1] & 1 == 1;
        let log: Log = Rc::new(RefCell::new(LogInner { tx_done_ms: 0, snr: 5, rng_next: opts.rng_start, lead_ms: LEAD_MS, tx_async, ..Default::default() }));
        let rng = SRng { log: log.clone(), prng: opts.rng_seed.map(Prng::new) };
        let cfg = region_config(reg, opts.bias);
        let dev = match front {
            Front::Nb => AnyDev::Nb(Box::new(nb_device::Device::new(cfg, NbRadio { log: log.clone(), rx: vec![] }, rng))),
            Front::Async | Front::AsyncC => {
                let mut d: AsDev<PW, G> = async_device::Device::new(cfg, AsRadio { log: log.clone() }, AsTimer { log: log.clone() }, rng);
                if front == Front::AsyncC {
                    d.enable_class_c();
                }
                AnyDev::As(Box::new(d))
            }
        };
        Dev { front, reg, log, dev, creds, window_notes: vec![] }
    }

    /// nb front-end: events that arrive while no transaction is running (a timer that fires late,
    /// a radio interrupt nobody waits for). Returns what the device answered; panics are trapped.
    pub fn poke_idle(&mut self, garbage: Vec<u8>) -> Result<Vec<String>, Trapped> {
        let AnyDev::Nb(d) = &mut self.dev else { return Ok(vec![]) };
        trap(|| {
            use nb_device::Event;
            let mut out = vec![];
            for ev in [Event::TimeoutFired, Event::RadioEvent(nb_device::radio::Event::Phy(NbPhyEvent::RxDone(garbage.clone()))), Event::RadioEvent(nb_device::radio::Event::Phy(NbPhyEvent::TxDone(0)))] {
                out.push(match d.handle_event(ev) {
                    Ok(r) => format!("Ok({:?})", r),
                    Err(e) => format!("Err({})", render_nb_err(e)),
                });
            }
            out
        })
    }

    pub fn set_rng_hold(&mut self, n: u32) {
        self.log.borrow_mut().rng_hold = n;
    }
    pub fn set_rng_next(&mut self, v: u32) {
        self.log.borrow_mut().rng_next = v;
    }

    pub fn join_abp(&mut self, nwk: [u8; 16], app: [u8; 16], addr: u32) {
        let jm = JoinMode::ABP { nwkskey: NwkSKey::from(nwk), appskey: AppSKey::from(app), devaddr: DevAddr::from_value(addr) };
        match &mut self.dev {
            AnyDev::Nb(d) => {
                let _ = d.join(jm);
            }
            AnyDev::As(d) => {
                let _ = block_on(d.join(&jm));
            }
        }
    }

    pub fn snapshot(&self) -> lorawan_device::verif::Snapshot {
        match &self.dev {
            AnyDev::Nb(d) => d.verif_snapshot(),
            AnyDev::As(d) => d.verif_snapshot(),
        }
    }

    /// The session as its derived Debug form shows it (every field, also those a serialised form
    /// might leave out).
    pub fn session_debug(&mut self) -> Option<String> {
        match &mut self.dev {
            AnyDev::Nb(d) => d.get_session().map(|s| format!("{:?}", s)),
            AnyDev::As(d) => d.get_session().map(|s| format!("{:?}", s)),
        }
    }

    pub fn session_json(&mut self) -> Option<serde_json::Value> {
        match &mut self.dev {
            AnyDev::Nb(d) => d.get_session().map(|s| serde_json::to_value(s).unwrap()),
            AnyDev::As(d) => d.get_session().map(|s| serde_json::to_value(s).unwrap()),
        }
    }

    /// Replaces the session (nb: set_session; async: re-creates the device, which is what
    /// `new_with_session` offers). For async the MAC configuration restarts from defaults.
    pub fn set_session_json(&mut self, v: &serde_json::Value) -> Result<(), String> {
        let s: lorawan_device::mac::Session = serde_json::from_value(v.clone()).map_err(|e| e.to_string())?;
        match &mut self.dev {
            AnyDev::Nb(d) => {
                d.set_session(s);
                Ok(())
            }
            AnyDev::As(_) => Err("async: use Dev::new_with_session".into()),
        }
    }

    pub fn new_with_session(front: Front, reg: Reg, creds: Creds, opts: &DevOpts, session: lorawan_device::mac::Session) -> Self {
        let mut d = Self::new(front, reg, creds, opts);
        match front {
            Front::Nb => {
                if let AnyDev::Nb(x) = &mut d.dev {
                    x.set_session(session);
                }
            }
            _ => {
                let log = d.log.clone();
                let rng = SRng { log: log.clone(), prng: opts.rng_seed.map(Prng::new) };
                let mut x: AsDev<PW, G> = async_device::Device::new_with_session(region_config(reg, opts.bias), AsRadio { log: log.clone() }, AsTimer { log: log.clone() }, rng, Some(session));
                if front == Front::AsyncC {
                    x.enable_class_c();
                }
                d.dev = AnyDev::As(Box::new(x));
            }
        }
        d
    }

    pub fn fcnt_down(&mut self) -> Option<Option<u32>> {
        match &mut self.dev {
            AnyDev::Nb(d) => d.get_session().map(|s| s.fcnt_down()),
            AnyDev::As(d) => d.get_session().map(|s| s.fcnt_down()),
        }
    }
    pub fn fcnt_up(&mut self) -> Option<u32> {
        match &mut self.dev {
            AnyDev::Nb(d) => d.get_session().map(|s| s.fcnt_up),
            AnyDev::As(d) => d.get_session().map(|s| s.fcnt_up),
        }
    }
    pub fn session_keys(&mut self) -> Option<([u8; 16], [u8; 16], u32)> {
        let k = match &mut self.dev {
            AnyDev::Nb(d) => d.get_session_keys(),
            AnyDev::As(d) => d.get_session().and_then(|s| s.get_session_keys()),
        }?;
        Some((k.nwkskey.inner().0, k.appskey.inner().0, k.devaddr.value()))
    }
    pub fn take_downlinks(&mut self) -> Vec<(u8, Vec<u8>)> {
        let mut v = vec![];
        loop {
            let d = match &mut self.dev {
                AnyDev::Nb(d) => d.take_downlink(),
                AnyDev::As(d) => d.take_downlink(),
            };
            match d {
                Some(x) => v.push((x.fport, x.data.to_vec())),
                None => break,
            }
        }
        v
    }
    pub fn set_datarate(&mut self, dr: u8) {
        let dr = lorawan_device::region::DR::from(dr);
        match &mut self.dev {
            AnyDev::Nb(d) => d.set_datarate(dr),
            AnyDev::As(d) => d.set_datarate(dr),
        }
    }
    pub fn set_adr(&mut self, on: bool) {
        match &mut self.dev {
            AnyDev::Nb(d) => d.set_adr(on),
            AnyDev::As(d) => d.set_adr(on),
        }
    }

    fn join_mode(&self) -> JoinMode {
        // every other device is provisioned from the text forms of its identifiers (EUIs are written
        // most significant octet first, i.e. the wire octets reversed; keys in octet order)
        if self.creds.dev_eui[2] & 1 == 1 {
            use core::str::FromStr;
            let hx = |b: &[u8]| b.iter().map(|x| format!("{:02x}", x)).collect::<String>();
            let rev = |b: &[u8]| b.iter().rev().copied().collect::<Vec<u8>>();
            if let (Ok(deveui), Ok(appeui), Ok(appkey)) = (DevEui::from_str(&hx(&rev(&self.creds.dev_eui))), AppEui::from_str(&hx(&rev(&self.creds.app_eui))), AppKey::from_str(&hx(&self.creds.app_key))) {
                return JoinMode::OTAA { deveui, appeui, appkey };
            }
        }
        JoinMode::OTAA { deveui: DevEui::from(self.creds.dev_eui), appeui: AppEui::from(self.creds.app_eui), appkey: AppKey::from(self.creds.app_key) }
    }

    /// Runs one whole transaction (uplink + its receive opportunities) and returns the
    /// application-visible outcome. All radio traffic is appended to the log.
    pub fn transact(&mut self, action: Action<'_>, script: &Script) -> Resp {
        self.log.borrow_mut().draws_in_call = 0;
        self.window_notes.clear();
        let front = self.front;
        let jm = self.join_mode();
        let log = self.log.clone();
        let notes = &mut self.window_notes;
        let r: Result<Resp, Trapped> = match &mut self.dev {
            AnyDev::As(d) => {
                {
                    let mut l = log.borrow_mut();
                    l.rx_single_queue.clear();
                    l.rx_cont_queue[0].clear();
                    l.rx_cont_queue[1].clear();
                    l.rx_single_count = 0;
                    l.rx_single_queue.push_back(script.rx1.first().cloned());
                    l.rx_single_queue.push_back(script.rx2.first().cloned());
                    if front == Front::AsyncC {
                        for f in &script.pre_rx1 {
                            l.rx_cont_queue[0].push_back(f.clone());
                        }
                        for f in &script.between {
                            l.rx_cont_queue[1].push_back(f.clone());
                        }
                    }
                }
                trap(move || {
                    block_on(async {
                        match action {
                            Action::Join => match d.join(&jm).await {
                                Ok(async_device::JoinResponse::JoinSuccess) => Resp::JoinSuccess,
                                Ok(async_device::JoinResponse::NoJoinAccept) => Resp::NoJoinAccept,
                                Err(e) => Resp::Error(render_async_err(e)),
                            },
                            Action::Send { data, port, confirmed } => match d.send(data, port, confirmed).await {
                                Ok(async_device::SendResponse::DownlinkReceived(n)) => Resp::DownlinkReceived(n),
                                Ok(async_device::SendResponse::SessionExpired) => Resp::SessionExpired,
                                Ok(async_device::SendResponse::NoAck) => Resp::NoAck,
                                Ok(async_device::SendResponse::RxComplete) => Resp::RxComplete,
                                Err(e) => Resp::Error(render_async_err(e)),
                            },
                        }
                    })
                })
            }
            AnyDev::Nb(d) => trap(move || nb_transact(d, jm, action, script, notes)),
        };
        match r {
            Ok(v) => v,
            Err(t) => Resp::Panic(t.msg, t.loc),
        }
    }

    /// Class C listen outside a transaction (async+classC): feeds `frames` to rx_continuous
    /// and returns the response of `rxc_listen`, or None if it stays pending (all rejected).
    pub fn rxc_listen(&mut self, frames: &[Vec<u8>]) -> Option<Resp> {
        self.log.borrow_mut().draws_in_call = 0;
        let log = self.log.clone();
        match &mut self.dev {
            AnyDev::As(d) => {
                {
                    let mut l = log.borrow_mut();
                    l.rx_cont_queue[0].clear();
                    l.rx_cont_queue[1].clear();
                    l.rx_single_count = 0;
                    for f in frames {
                        l.rx_cont_queue[0].push_back(f.clone());
                    }
                }
                let r = trap(move || {
                    let fut = d.rxc_listen();
                    let mut fut = std::pin::pin!(fut);
                    let w = noop_waker();
                    let mut cx = Context::from_waker(&w);
                    for _ in 0..64 {
                        if let Poll::Ready(v) = fut.as_mut().poll(&mut cx) {
                            return Some(match v {
                                Ok(async_device::ListenResponse::DownlinkReceived(n)) => Resp::DownlinkReceived(n),
                                Ok(async_device::ListenResponse::SessionExpired) => Resp::SessionExpired,
                                Err(e) => Resp::Error(render_async_err(e)),
                            });
                        }
                    }
                    None // still listening: dropping the future is what an application does
                });
                match r {
                    Ok(v) => v,
                    Err(t) => Some(Resp::Panic(t.msg, t.loc)),
                }
            }
            AnyDev::Nb(_) => None,
        }
    }
}

fn render_async_err(e: async_device::Error<RadioErr>) -> String {
    match e {
        async_device::Error::Radio(r) => format!("Radio({})", r.0),
        async_device::Error::Mac(m) => format!("Mac({:?})", m),
    }
}

fn render_nb_err<const PW: u8, const G: i8>(e: nb_device::Error<NbRadio<PW, G>>) -> String {
    match e {
        nb_device::Error::Radio(r) => format!("Radio({})", r.0),
        nb_device::Error::State(s) => format!("State({:?})", s),
        nb_device::Error::Mac(m) => format!("Mac({:?})", m),
    }
}

/// Drives the nb state machine through one transaction the way an application's event loop
/// would: send -> (TxDone) -> timeout -> RX1 window {frames..., timeout} -> timeout -> RX2 ...
pub fn nb_transact<const PW: u8, const G: i8, const N: usize, const D: usize>(d: &mut NbDev<PW, G, N, D>, jm: JoinMode, action: Action<'_>, script: &Script, notes: &mut Vec<String>) -> Resp {
    use nb_device::{Event, Response};
    let first = match action {
        Action::Join => d.join(jm),
        Action::Send { data, port, confirmed } => d.send(data, port, confirmed),
    };
    let mut resp = match first {
        Ok(r) => r,
        Err(e) => return Resp::Error(render_nb_err(e)),
    };
    // state: after TxDone the device asks for a timeout (start of RX1)
    let mut window = 0; // 0: waiting for rx1 start, 1: in rx1, 2: waiting rx2 start, 3: in rx2
    let mut steps = 0;
    loop {
        steps += 1;
        if steps > 64 {
            return Resp::Error("nb-driver: transaction did not finish in 64 steps".into());
        }
        // (only while the transaction is still running; stray radio events not while the radio
        // transmits: what a radio answers then is the board's business, not the stack's)
        let running = matches!(resp, Response::TimeoutRequest(_) | Response::UplinkSending(_) | Response::JoinRequestSending);
        let sending = matches!(resp, Response::UplinkSending(_) | Response::JoinRequestSending);
        for (at, k) in script.intrude.iter() {
            if matches!(k, Intrusion::StrayTimeout) {
                // (at whatever step the transmission is still running)
                if !sending || *at > steps + 1 {
                    continue;
                }
            } else if *at != steps || !running || (sending && matches!(k, Intrusion::StrayRx(_) | Intrusion::StrayNothing)) {
                continue;
            }
            if matches!(k, Intrusion::SessionSnapshot) {
                notes.push(match d.get_session() {
                    Some(sess) => match serde_json::to_string(sess) {
                        Ok(t) => format!("snap@{}:{}", steps, t),
                        Err(_) => format!("snap@{}:UNSERIALISABLE", steps),
                    },
                    None => format!("snap@{}:NONE", steps),
                });
                continue;
            }
            let r = match k {
                Intrusion::SessionSnapshot => unreachable!(),
                Intrusion::Send => d.send(&[0x99, 0x98], 7, false),
                Intrusion::SendConfirmed => d.send(&[0x97], 8, true),
                Intrusion::Join => d.join(jm),
                Intrusion::StrayRx(b) => d.handle_event(Event::RadioEvent(nb_device::radio::Event::Phy(NbPhyEvent::RxDone(b.clone())))),
                Intrusion::StrayNothing => d.handle_event(Event::RadioEvent(nb_device::radio::Event::Phy(NbPhyEvent::Nothing))),
                Intrusion::StrayTimeout => d.handle_event(Event::TimeoutFired),
            };
            match r {
                Ok(Response::NoUpdate) => notes.push(format!("intr@{}:NoUpdate", steps)),
                Err(e) => notes.push(format!("intr@{}:refused:{}", steps, render_nb_err(e))),
                Ok(other) => {
                    // the call was taken in the middle of the transaction: what follows is no
                    // longer the transaction this driver was running
                    notes.push(format!("intr@{}:took-effect:{:?}", steps, other));
                    return Resp::Error(format!("nb-driver: a call made during a transaction took effect: {:?}", other));
                }
            }
        }
        match resp {
            Response::TimeoutRequest(ms) => {
                d.get_radio().log.borrow_mut().ev.push(Ev::TimerAt(ms as u64));
                match window {
                    0 | 2 => {
                        // window opens (an application retries a failed radio request once:
                        // injected faults are single-shot)
                        resp = match d.handle_event(Event::TimeoutFired) {
                            Ok(r) => r,
                            Err(e) => {
                                notes.push(format!("err:{}", render_nb_err(e)));
                                match d.handle_event(Event::TimeoutFired) {
                                    Ok(r) => r,
                                    Err(e) => return Resp::Error(render_nb_err(e)),
                                }
                            }
                        };
                        window += 1;
                    }
                    1 | 3 => {
                        // in a window: deliver the scripted frames, then let it time out
                        let frames = if window == 1 { &script.rx1 } else { &script.rx2 };
                        let mut done = None;
                        for f in frames {
                            let r = d.handle_event(Event::RadioEvent(nb_device::radio::Event::Phy(NbPhyEvent::RxDone(f.clone()))));
                            match r {
                                Ok(Response::NoUpdate) => notes.push(format!("w{}:NoUpdate", window)),
                                Ok(other) => {
                                    notes.push(format!("w{}:{:?}", window, other));
                                    done = Some(other);
                                    break;
                                }
                                Err(e) => {
                                    // the frame is lost with the failed radio call
                                    notes.push(format!("err:{}", render_nb_err(e)));
                                }
                            }
                        }
                        if let Some(o) = done {
                            resp = o;
                            continue;
                        }
                        resp = match d.handle_event(Event::TimeoutFired) {
                            Ok(r) => r,
                            Err(e) => {
                                notes.push(format!("err:{}", render_nb_err(e)));
                                match d.handle_event(Event::TimeoutFired) {
                                    Ok(r) => r,
                                    Err(e) => return Resp::Error(render_nb_err(e)),
                                }
                            }
                        };
                        window += 1;
                    }
                    _ => return Resp::Error("nb-driver: timeout requested after RX2".into()),
                }
            }
            Response::UplinkSending(_) | Response::JoinRequestSending => {
                // asynchronous TX: report TxDone (an application delivers the radio's completion
                // interrupt again when handling it failed: injected faults are single-shot)
                let ms = d.get_radio().log.borrow().tx_done_ms;
                resp = match d.handle_event(Event::RadioEvent(nb_device::radio::Event::Phy(NbPhyEvent::TxDone(ms)))) {
                    Ok(r) => r,
                    Err(e) => {
                        notes.push(format!("err:{}", render_nb_err(e)));
                        match d.handle_event(Event::RadioEvent(nb_device::radio::Event::Phy(NbPhyEvent::TxDone(ms)))) {
                            Ok(r) => r,
                            Err(e) => return Resp::Error(render_nb_err(e)),
                        }
                    }
                };
            }
            Response::JoinSuccess => return Resp::JoinSuccess,
            Response::NoJoinAccept => return Resp::NoJoinAccept,
            Response::DownlinkReceived(n) => return Resp::DownlinkReceived(n),
            Response::NoAck => return Resp::NoAck,
            Response::RxComplete => return Resp::RxComplete,
            Response::SessionExpired => return Resp::SessionExpired,
            Response::ReadyToSend => return Resp::RxComplete,
            Response::NoUpdate => return Resp::Error("nb-driver: unexpected NoUpdate".into()),
        }
    }
}

pub fn default_creds(rng: &mut Prng) -> Creds {
    Creds { dev_eui: rng.arr(), app_eui: rng.arr(), app_key: rng.arr() }
}

// ---- helpers shared by the monitors -------------------------------------------------------------

use crate::net::Net;

/// An ABP device whose session was created at chosen counters through the serde surface.
pub fn abp_dev<const PW: u8, const G: i8>(
    front: Front,
    reg: Reg,
    rng: &mut Prng,
    opts: &DevOpts,
    tweak: impl FnOnce(&mut serde_json::Value),
) -> Result<(Dev<PW, G>, Net), String> {
    let net = Net { nwk: rng.arr(), app: rng.arr(), addr: rng.next_u32() };
    let creds = default_creds(rng);
    let mut tmp: Dev<PW, G> = Dev::new(Front::Nb, reg, creds.clone(), opts);
    tmp.join_abp(net.nwk, net.app, net.addr);
    let mut sj = tmp.session_json().ok_or("no session after ABP join")?;
    tweak(&mut sj);
    let session: lorawan_device::mac::Session = serde_json::from_value(sj).map_err(|e| e.to_string())?;
    Ok((Dev::new_with_session(front, reg, creds, opts, session), net))
}

impl<const PW: u8, const G: i8> Dev<PW, G> {
    pub fn ev_len(&self) -> usize {
        self.log.borrow().ev.len()
    }
    pub fn evs_since(&self, start: usize) -> Vec<Ev> {
        self.log.borrow().ev[start..].to_vec()
    }
    /// Frames handed to the radio since `start`.
    pub fn tx_since(&self, start: usize) -> Vec<Ev> {
        self.log.borrow().ev[start..].iter().filter(|e| matches!(e, Ev::Tx { .. })).cloned().collect()
    }
}

pub fn short_loc(loc: &str) -> String {
    let f = loc.rsplit_once(':').map(|x| x.0).unwrap_or(loc);
    // (wherever a copy of the repository lives)
    // (a dependency's source: crate directory onwards)
    if let Some(i) = f.find("/registry/src/") {
        if let Some(j) = f[i + 14..].find('/') {
            return f[i + 14 + j + 1..].to_string();
        }
    }
    for c in ["lorawan-encoding/", "lorawan-device/", "lorawan-macros/", "lora-modulation/", "lora-phy/"] {
        if let Some(i) = f.find(c) {
            return f[i..].to_string();
        }
    }
    f.trim_start_matches("/repo/").to_string()
}

/// A joined device together with the network's view of the session.
pub struct Link<const PW: u8 = 20, const G: i8 = 0> {
    pub dev: Dev<PW, G>,
    pub net: Net,
    /// last downlink counter the network used
    pub fdown: u32,
    /// lower bound for the next uplink counter
    pub up_min: u32,
}

pub struct Txn {
    pub resp: Resp,
    /// all events of the transaction
    pub evs: Vec<Ev>,
    /// the decoded data uplink, if one was handed to the radio and decodes
    pub up: Option<crate::net::Uplink>,
    pub tx_bytes: Option<Vec<u8>>,
}

impl<const PW: u8, const G: i8> Link<PW, G> {
    pub fn abp(front: Front, reg: Reg, rng: &mut Prng, opts: &DevOpts) -> Option<Self> {
        let (dev, net) = abp_dev::<PW, G>(front, reg, rng, opts, |_| {}).ok()?;
        Some(Link { dev, net, fdown: 0, up_min: 0 })
    }

    /// One data transaction.
    pub fn txn(&mut self, data: &[u8], port: u8, confirmed: bool, script: &Script) -> Txn {
        let ev0 = self.dev.ev_len();
        let resp = self.dev.transact(Action::Send { data, port, confirmed }, script);
        let evs = self.dev.evs_since(ev0);
        let tx_bytes = evs.iter().find_map(|e| if let Ev::Tx { bytes, .. } = e { Some(bytes.clone()) } else { None });
        let up = tx_bytes.as_ref().and_then(|b| self.net.decode_uplink(b, self.up_min));
        if let Some(u) = &up {
            self.up_min = u.fcnt.saturating_add(1);
        }
        Txn { resp, evs, up, tx_bytes }
    }

    /// Next authentic downlink carrying `cmds` (FOpts when they fit and `in_fopts`, else port 0).
    pub fn mac_frame(&mut self, cmds: &[u8], in_fopts: bool) -> Vec<u8> {
        self.fdown += 1;
        self.net.mac_downlink(self.fdown, cmds, in_fopts)
    }

    /// Delivers one frame that carries `fopts` in FOpts *and* `payload` as port-0 FRMPayload, in RX1
    /// (or RX2) of a fresh uplink.
    pub fn deliver_mac_both(&mut self, fopts: &[u8], payload: &[u8], rx2: bool) -> Txn {
        self.fdown += 1;
        let f = self.net.downlink(&crate::net::Down { fcnt: self.fdown, f_opts: fopts, port: Some(0), payload, ..Default::default() });
        let script = if rx2 { Script::rx2(f) } else { Script::rx1(f) };
        self.txn(&[0x11], 1, false, &script)
    }

    /// Delivers `cmds` in RX1 (or RX2) of a fresh uplink; returns that transaction.
    pub fn deliver_mac(&mut self, cmds: &[u8], in_fopts: bool, rx2: bool) -> Txn {
        let f = self.mac_frame(cmds, in_fopts);
        let script = if rx2 { Script::rx2(f) } else { Script::rx1(f) };
        let t = self.txn(&[0x11], 1, false, &script);
        if !matches!(t.resp, Resp::DownlinkReceived(_)) {
            // the frame was not accepted: the network's counter was not consumed by the device,
            // but using a fresh one next time is always legal
        }
        t
    }
}


/// A state-machine device built with a radio buffer of `N` octets and a downlink queue of `D` entries
/// (the const generics the other monitors leave at 256 and 4): personalised, on a scripted radio like
/// every other `Dev`.
pub struct SmallNb<const N: usize, const D: usize = 4> {
    pub dev: NbDev<20, 0, N, D>,
    pub log: Log,
    pub net: Net,
    pub notes: Vec<String>,
}

impl<const N: usize, const D: usize> SmallNb<N, D> {
    pub fn new(reg: Reg, rng: &mut Prng) -> Self {
        let log: Log = Rc::new(RefCell::new(LogInner { tx_done_ms: 0, snr: 5, rng_next: rng.next_u32(), lead_ms: LEAD_MS, tx_async: rng.bool(), ..Default::default() }));
        let srng = SRng { log: log.clone(), prng: Some(Prng::new(rng.next_u64())) };
        let mut dev: NbDev<20, 0, N, D> = nb_device::Device::new(region_config(reg, None), NbRadio { log: log.clone(), rx: vec![] }, srng);
        let net = Net { nwk: rng.arr(), app: rng.arr(), addr: rng.next_u32() };
        let _ = dev.join(JoinMode::ABP { nwkskey: NwkSKey::from(net.nwk), appskey: AppSKey::from(net.app), devaddr: DevAddr::from_value(net.addr) });
        SmallNb { dev, log, net, notes: vec![] }
    }
    pub fn transact(&mut self, action: Action<'_>, script: &Script) -> Resp {
        self.log.borrow_mut().draws_in_call = 0;
        self.notes.clear();
        let jm = JoinMode::ABP { nwkskey: NwkSKey::from(self.net.nwk), appskey: AppSKey::from(self.net.app), devaddr: DevAddr::from_value(self.net.addr) };
        let d = &mut self.dev;
        let notes = &mut self.notes;
        match trap(move || nb_transact(d, jm, action, script, notes)) {
            Ok(r) => r,
            Err(t) => Resp::Panic(t.msg, t.loc),
        }
    }
    pub fn ev_len(&self) -> usize {
        self.log.borrow().ev.len()
    }
    pub fn tx_since(&self, start: usize) -> Vec<Vec<u8>> {
        self.log.borrow().ev[start..].iter().filter_map(|e| if let Ev::Tx { bytes, .. } = e { Some(bytes.clone()) } else { None }).collect()
    }
    pub fn evs_since(&self, start: usize) -> Vec<Ev> {
        self.log.borrow().ev[start..].to_vec()
    }
    /// Empties the downlink queue the way an application does.
    pub fn take_downlinks(&mut self) -> usize {
        let mut n = 0;
        while self.dev.take_downlink().is_some() {
            n += 1;
        }
        n
    }
}
