#!/bin/bash
# Re-runs the monitors against every kept seeded change (scratch worktrees only) and prints one
# line per change. Usage: tools/sweep_seeded.sh [ids...]
cd "$(dirname "$0")/.."
crate_of() { case $1 in C01|C02|C03|C19) echo lrv-codec;; C13) echo lrv-phyref;; C14|C18) echo lrv-chip;; C15|C16|C17) echo lrv-phy;; *) echo lrv-mac;; esac; }
ids=${@:-$(ls seeded)}
for id in $ids; do
  p=${id:0:3}
  MUT_SHOW=1 tools/mutant.sh s-$id $(crate_of $p) "$p" /verif/seeded/$id/patch.diff 2>&1 | grep "^MUTANT" | cut -c1-200
done
