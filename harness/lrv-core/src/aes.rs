//! Independent AES-128 (FIPS-197) and AES-CMAC (RFC 4493), written from the specifications.
//! Shares no code with /repo or with the `aes`/`cmac` crates. The S-box is *computed*
//! (multiplicative inverse in GF(2^8) followed by the affine map) rather than transcribed.

fn xtime(a: u8) -> u8 {
    (a << 1) ^ if a & 0x80 != 0 { 0x1b } else { 0 }
}

fn gmul(mut a: u8, mut b: u8) -> u8 {
    let mut p = 0u8;
    while b != 0 {
        if b & 1 != 0 {
            p ^= a;
        }
        a = xtime(a);
        b >>= 1;
    }
    p
}

struct Tables {
    sbox: [u8; 256],
    inv: [u8; 256],
}

fn tables() -> &'static Tables {
    use std::sync::OnceLock;
    static T: OnceLock<Tables> = OnceLock::new();
    T.get_or_init(|| {
        let mut sbox = [0u8; 256];
        let mut inv = [0u8; 256];
        for x in 0..=255u8 {
            // multiplicative inverse (0 -> 0)
            let mut y = 0u8;
            if x != 0 {
                for c in 1..=255u8 {
                    if gmul(x, c) == 1 {
                        y = c;
                        break;
                    }
                }
            }
            let s = y ^ y.rotate_left(1) ^ y.rotate_left(2) ^ y.rotate_left(3) ^ y.rotate_left(4) ^ 0x63;
            sbox[x as usize] = s;
            inv[s as usize] = x;
        }
        Tables { sbox, inv }
    })
}

#[derive(Clone)]
pub struct Aes128 {
    rk: [[u8; 16]; 11],
}

impl Aes128 {
    pub fn new(key: &[u8; 16]) -> Self {
        let t = tables();
        let mut w = [[0u8; 4]; 44];
        for i in 0..4 {
            w[i].copy_from_slice(&key[4 * i..4 * i + 4]);
        }
        let mut rcon = 1u8;
        for i in 4..44 {
            let mut tmp = w[i - 1];
            if i % 4 == 0 {
                tmp.rotate_left(1);
                for b in tmp.iter_mut() {
                    *b = t.sbox[*b as usize];
                }
                tmp[0] ^= rcon;
                rcon = xtime(rcon);
            }
            for j in 0..4 {
                w[i][j] = w[i - 4][j] ^ tmp[j];
            }
        }
        let mut rk = [[0u8; 16]; 11];
        for r in 0..11 {
            for c in 0..4 {
                rk[r][4 * c..4 * c + 4].copy_from_slice(&w[4 * r + c]);
            }
        }
        Aes128 { rk }
    }

    fn add(s: &mut [u8; 16], k: &[u8; 16]) {
        for i in 0..16 {
            s[i] ^= k[i];
        }
    }

    pub fn encrypt(&self, block: &[u8; 16]) -> [u8; 16] {
        let t = tables();
        let mut s = *block;
        Self::add(&mut s, &self.rk[0]);
        for r in 1..=10 {
            for b in s.iter_mut() {
                *b = t.sbox[*b as usize];
            }
            // ShiftRows: state is column-major, s[4*c + r]
            let o = s;
            for c in 0..4 {
                for row in 0..4 {
                    s[4 * c + row] = o[4 * ((c + row) % 4) + row];
                }
            }
            if r != 10 {
                for c in 0..4 {
                    let a = [s[4 * c], s[4 * c + 1], s[4 * c + 2], s[4 * c + 3]];
                    s[4 * c] = gmul(a[0], 2) ^ gmul(a[1], 3) ^ a[2] ^ a[3];
                    s[4 * c + 1] = a[0] ^ gmul(a[1], 2) ^ gmul(a[2], 3) ^ a[3];
                    s[4 * c + 2] = a[0] ^ a[1] ^ gmul(a[2], 2) ^ gmul(a[3], 3);
                    s[4 * c + 3] = gmul(a[0], 3) ^ a[1] ^ a[2] ^ gmul(a[3], 2);
                }
            }
            Self::add(&mut s, &self.rk[r]);
        }
        s
    }

    pub fn decrypt(&self, block: &[u8; 16]) -> [u8; 16] {
        let t = tables();
        let mut s = *block;
        Self::add(&mut s, &self.rk[10]);
        for r in (0..10).rev() {
            // InvShiftRows
            let o = s;
            for c in 0..4 {
                for row in 0..4 {
                    s[4 * ((c + row) % 4) + row] = o[4 * c + row];
                }
            }
            for b in s.iter_mut() {
                *b = t.inv[*b as usize];
            }
            Self::add(&mut s, &self.rk[r]);
            if r != 0 {
                for c in 0..4 {
                    let a = [s[4 * c], s[4 * c + 1], s[4 * c + 2], s[4 * c + 3]];
                    s[4 * c] = gmul(a[0], 14) ^ gmul(a[1], 11) ^ gmul(a[2], 13) ^ gmul(a[3], 9);
                    s[4 * c + 1] = gmul(a[0], 9) ^ gmul(a[1], 14) ^ gmul(a[2], 11) ^ gmul(a[3], 13);
                    s[4 * c + 2] = gmul(a[0], 13) ^ gmul(a[1], 9) ^ gmul(a[2], 14) ^ gmul(a[3], 11);
                    s[4 * c + 3] = gmul(a[0], 11) ^ gmul(a[1], 13) ^ gmul(a[2], 9) ^ gmul(a[3], 14);
                }
            }
        }
        s
    }

    /// AES-CMAC (RFC 4493), full 16-byte tag.
    pub fn cmac(&self, msg: &[u8]) -> [u8; 16] {
        fn dbl(b: &[u8; 16]) -> [u8; 16] {
            let mut o = [0u8; 16];
            let mut carry = 0u8;
            for i in (0..16).rev() {
                o[i] = (b[i] << 1) | carry;
                carry = b[i] >> 7;
            }
            if carry != 0 {
                o[15] ^= 0x87;
            }
            o
        }
        let l = self.encrypt(&[0u8; 16]);
        let k1 = dbl(&l);
        let k2 = dbl(&k1);
        let n = if msg.is_empty() { 1 } else { msg.len().div_ceil(16) };
        let complete = !msg.is_empty() && msg.len() % 16 == 0;
        let mut x = [0u8; 16];
        for i in 0..n - 1 {
            for j in 0..16 {
                x[j] ^= msg[16 * i + j];
            }
            x = self.encrypt(&x);
        }
        let mut last = [0u8; 16];
        let tail = &msg[16 * (n - 1)..];
        if complete {
            last.copy_from_slice(tail);
            for j in 0..16 {
                last[j] ^= k1[j];
            }
        } else {
            last[..tail.len()].copy_from_slice(tail);
            last[tail.len()] = 0x80;
            for j in 0..16 {
                last[j] ^= k2[j];
            }
        }
        for j in 0..16 {
            x[j] ^= last[j];
        }
        self.encrypt(&x)
    }
}

pub fn hex(b: &[u8]) -> String {
    let mut s = String::with_capacity(b.len() * 2);
    for x in b {
        s.push_str(&format!("{:02x}", x));
    }
    s
}

pub fn unhex(s: &str) -> Vec<u8> {
    let s: Vec<u8> = s.bytes().filter(|c| !c.is_ascii_whitespace()).collect();
    s.chunks(2)
        .map(|p| u8::from_str_radix(std::str::from_utf8(p).unwrap(), 16).unwrap())
        .collect()
}

/// Known-answer self test: FIPS-197 App. C.1, SP800-38A F.1.1, RFC 4493 examples 1-4.
pub fn self_test() -> Result<(), String> {
    let k: [u8; 16] = unhex("000102030405060708090a0b0c0d0e0f").try_into().unwrap();
    let p: [u8; 16] = unhex("00112233445566778899aabbccddeeff").try_into().unwrap();
    let c = Aes128::new(&k).encrypt(&p);
    if hex(&c) != "69c4e0d86a7b0430d8cdb78070b4c55a" {
        return Err(format!("FIPS-197 C.1 encrypt: {}", hex(&c)));
    }
    if Aes128::new(&k).decrypt(&c) != p {
        return Err("FIPS-197 C.1 decrypt".into());
    }
    let k: [u8; 16] = unhex("2b7e151628aed2a6abf7158809cf4f3c").try_into().unwrap();
    let a = Aes128::new(&k);
    let p: [u8; 16] = unhex("6bc1bee22e409f96e93d7e117393172a").try_into().unwrap();
    if hex(&a.encrypt(&p)) != "3ad77bb40d7a3660a89ecaf32466ef97" {
        return Err("SP800-38A ECB".into());
    }
    let m = unhex(
        "6bc1bee22e409f96e93d7e117393172aae2d8a571e03ac9c9eb76fac45af8e5130c81c46a35ce411e5fbc1191a0a52eff69f2445df4f9b17ad2b417be66c3710",
    );
    let exp = [
        (0usize, "bb1d6929e95937287fa37d129b756746"),
        (16, "070a16b46b4d4144f79bdd9dd04a287c"),
        (40, "dfa66747de9ae63030ca32611497c827"),
        (64, "51f0bebf7e3b9d92fc49741779363cfe"),
    ];
    for (n, e) in exp {
        let t = a.cmac(&m[..n]);
        if hex(&t) != e {
            return Err(format!("RFC4493 len {}: {}", n, hex(&t)));
        }
    }
    Ok(())
}
