#!/bin/bash
# tools/sweep_par.sh <workers> [ids...]  - tools/sweep_seeded.sh over the given (default: all) kept changes, split over
# <workers> scratch bases (/tmp/mutwork-p<i>) that run side by side; prints the merged log path at the end.
w=$1; shift
cd "$(dirname "$0")/.."
ids=(${@:-$(ls seeded)})
out=/tmp/sweep-par-$$; mkdir -p $out
for ((i=0;i<w;i++)); do
  chunk=(); for ((k=i;k<${#ids[@]};k+=w)); do chunk+=(${ids[k]}); done
  [ ${#chunk[@]} -eq 0 ] && continue
  MUT_BASE=/tmp/mutwork-p$i tools/sweep_seeded.sh "${chunk[@]}" > $out/$i.log 2>&1 &
done
wait
cat $out/*.log > $out/all.log
for ((i=0;i<w;i++)); do rm -rf /tmp/mutwork-p$i; done
echo "caught: $(grep -c CAUGHT $out/all.log)  not caught: $(grep -c 'missed\|no result\|STALL' $out/all.log)  log: $out/all.log"
grep 'missed\|no result\|STALL' $out/all.log
