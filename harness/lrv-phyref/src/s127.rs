//! SX127x half of C13: an operation (or a short TX/RX/CAD flow) of lora-phy's `RadioKind` for
//! `Sx127x` against the corresponding SWL2001 call(s), both executed on register-file devices
//! that start from the same contents; compared on chip-visible outcome.
//!
//! Prior register contents: every register lora-phy *read-modify-writes* (RegModemConfig1/2/3,
//! RegDetectionOptimize, RegDioMapping1) and every register neither driver governs starts from
//! random contents; registers lora-phy writes in full while the reference read-modify-writes
//! them (RegPaConfig, RegPaRamp, RegPaDac, RegInvertIQ reserved bits, RegOpMode) start from the
//! datasheet reset value, and RegDioMapping2 from 0x00 (the reference's shadow copy), because
//! "the same register state" is then the state both drivers assume.
//!
//! Mirrors applied on the reference side (list taken from the drivers' comments and the
//! repository's own comparison tests, values transcribed from the SX1276 errata note and
//! datasheets): errata 2.1 / 2.3 at modulation time, IQ registers written with the packet
//! parameters, RegMaxPayloadLength left alone (RegPayloadLength written at payload time in
//! explicit-header mode), OCP trim written with TX power, RegLna re-asserted at RX/CAD start,
//! IRQ flags cleared at the chip by set_irq_params/do_rx, unused MaxPower bits under PA_BOOST.

use crate::exec::{block_on, Delayer, Iv};
use crate::fix127::{Chip127, Spi127};
use crate::params::*;
use crate::s126::{err_name, pll_round_class, IrqMode, RxKind};
use lora_modulation::{Bandwidth, CodingRate, SpreadingFactor};
use lora_phy::mod_params::{DutyCycleParams, ModulationParams, RadioError, RxMode};
use lora_phy::mod_traits::RadioKind;
use lora_phy::sx127x::{Config, Sx1272, Sx1276, Sx127x};
use lrv_core::{hex, json, trap, Collector, Prng, Trapped, Value};
use smtc_modem_cores::sx127x as c;
use smtc_modem_cores::sys;
use std::cell::RefCell;

#[derive(Clone, Copy, PartialEq, Eq, Debug)]
pub enum Chip7 {
    Sx1276,
    Sx1272,
}

pub const CHIPS7: [Chip7; 2] = [Chip7::Sx1276, Chip7::Sx1272];

impl Chip7 {
    pub fn name(self) -> &'static str {
        match self {
            Chip7::Sx1276 => "Sx1276",
            Chip7::Sx1272 => "Sx1272",
        }
    }
    fn pa_dac(self) -> u8 {
        match self {
            Chip7::Sx1276 => 0x4D,
            Chip7::Sx1272 => 0x5A,
        }
    }
    /// Frequency bands of the part (datasheet table "frequency bands").
    pub fn bands(self) -> &'static [(u32, u32)] {
        match self {
            Chip7::Sx1276 => &[(137_000_000, 175_000_000), (410_000_000, 525_000_000), (862_000_000, 1_020_000_000)],
            Chip7::Sx1272 => &[(860_000_000, 1_020_000_000)],
        }
    }
    pub fn in_band(self, f: u32) -> bool {
        self.bands().iter().any(|b| f >= b.0 && f <= b.1)
    }
    /// Bandwidths the part supports.
    pub fn supports_bw(self, bw: Bandwidth) -> bool {
        match self {
            Chip7::Sx1276 => true,
            Chip7::Sx1272 => bw_i(bw) >= 7,
        }
    }
}

#[derive(Clone, Copy, Debug)]
pub struct Cfg {
    pub chip: Chip7,
    pub tx_boost: bool,
    pub rx_boost: bool,
}

#[derive(Clone, Copy, Debug)]
pub struct ModP {
    pub sf: SpreadingFactor,
    pub bw: Bandwidth,
    pub cr: CodingRate,
    pub ldro: u8,
    pub freq: u32,
}

#[derive(Clone, Copy, Debug)]
pub struct PktP {
    pub pre: u16,
    pub implicit: bool,
    pub len: u8,
    pub crc: bool,
    pub iq: bool,
}

#[derive(Clone, Debug)]
pub enum Step {
    Sleep,
    Standby,
    Channel(u32),
    Init(u16),
    Mod(ModP),
    Base(usize, usize),
    Pkt(PktP),
    Sync(u16),
    Payload(Vec<u8>),
    Power { dbm: i32, prep: bool },
    Irq(IrqMode),
    Rx(RxKind),
    Tx,
    Cad(ModP),
}

#[derive(Clone, Debug)]
pub enum RStep {
    Sleep,
    Standby,
    Freq(u32),
    SyncWord(u8),
    /// Raw register write through the reference driver's register access (a mirror).
    Raw(u8, u8),
    /// Raw read-modify-write through the reference driver's register access (a mirror).
    RawRmw(u8, u8, u8),
    Mod(ModP),
    Pkt(PktP),
    WriteBuffer(Vec<u8>),
    PaCfg { boost: bool, is20: bool },
    TxParams(i8, u32),
    IrqMask(u16),
    ClearIrq,
    SyncTimeout(u16),
    SetRx(u32),
    SetTx,
    SetCad,
}

/// Signature attribution of a register field.
pub struct Attr {
    pub addr: u8,
    pub bits: u8,
    pub op: &'static str,
    pub class: String,
    pub label: Option<&'static str>,
    pub xor: bool,
}

fn attr(addr: u8, bits: u8, op: &'static str, class: String) -> Attr {
    Attr { addr, bits, op, class, label: None, xor: true }
}

pub struct Scenario {
    pub op: &'static str,
    pub class: String,
    pub sig_class: String,
    pub sig_xor: bool,
    pub cfg: Cfg,
    pub prior: [u8; 128],
    pub ours: Vec<Step>,
    pub refs: Vec<RStep>,
    pub mask: [u8; 128],
    /// (address, bits): lora-phy must leave these bits as in the prior file (fields of a
    /// register whose other fields the operation governs and that the reference keeps in a
    /// shadow copy instead of on the chip).
    pub preserve: Vec<(u8, u8, &'static str, String)>,
    /// Write-1-to-clear values lora-phy is documented to push at RegIrqFlags in this flow.
    pub irq_clears: Vec<u8>,
    pub rust_may_reject: Option<&'static str>,
    pub notes: Vec<&'static str>,
    /// Signature attribution: a difference whose lowest register is `addr` is reported under
    /// the operation that governs that register with that operation's minimal class, so one
    /// defect yields the same signature whether it is seen alone or inside a flow.
    pub attrib: Vec<Attr>,
    /// Name used instead of the register number (multi-byte fields whose lowest differing
    /// byte depends on the value).
    pub reg_label: Option<&'static str>,
}

fn full_mask() -> [u8; 128] {
    let mut m = [0xFFu8; 128];
    m[0x00] = 0; // FIFO port, not a register
    m[0x12] = 0; // RegIrqFlags: write-1-to-clear, recorded separately
    m
}

/// Prior register file (see module comment).
pub fn prior(chip: Chip7, rng: &mut Prng, opmode: u8, version: u8) -> [u8; 128] {
    let mut r = [0u8; 128];
    rng.fill(&mut r);
    r[0x01] = opmode;
    match chip {
        Chip7::Sx1276 => {
            r[0x09] = 0x4F;
            r[0x0A] = 0x09;
        }
        Chip7::Sx1272 => {
            r[0x09] = 0x0F;
            r[0x0A] = 0x19;
        }
    }
    r[chip.pa_dac() as usize] = 0x84;
    r[0x33] = 0x26 | (r[0x33] & 0x41);
    r[0x41] = 0x00;
    r[0x42] = version;
    r
}

fn modulation(m: &ModP) -> ModulationParams {
    ModulationParams { spreading_factor: m.sf, bandwidth: m.bw, coding_rate: m.cr, low_data_rate_optimize: m.ldro, frequency_in_hz: m.freq }
}

async fn exec<R: RadioKind>(r: &mut R, steps: &[Step]) -> Result<(), (usize, RadioError)> {
    for (i, s) in steps.iter().enumerate() {
        let res = match s {
            Step::Sleep => r.set_sleep(false, &mut Delayer).await,
            Step::Standby => r.set_standby().await,
            Step::Channel(f) => r.set_channel(*f).await,
            Step::Init(w) => r.init_lora(*w).await,
            Step::Mod(m) => r.set_modulation_params(&modulation(m)).await,
            Step::Base(t, x) => r.set_tx_rx_buffer_base_address(*t, *x).await,
            Step::Pkt(p) => {
                let m = ModulationParams {
                    spreading_factor: SpreadingFactor::_7,
                    bandwidth: Bandwidth::_125KHz,
                    coding_rate: CodingRate::_4_5,
                    low_data_rate_optimize: 0,
                    frequency_in_hz: 868_100_000,
                };
                match r.create_packet_params(p.pre, p.implicit, p.len, p.crc, p.iq, &m) {
                    Ok(pp) => r.set_packet_params(&pp).await,
                    Err(e) => Err(e),
                }
            }
            Step::Sync(w) => r.set_lora_sync_word(*w).await,
            Step::Payload(p) => r.set_payload(p).await,
            Step::Power { dbm, prep } => r.set_tx_power_and_ramp_time(*dbm, None, *prep).await,
            Step::Irq(m) => r.set_irq_params(m.radio_mode()).await,
            Step::Rx(k) => {
                let mode = match k {
                    RxKind::Single(n) => RxMode::Single(*n),
                    RxKind::Continuous => RxMode::Continuous,
                    RxKind::Duty(a, b) => RxMode::DutyCycle(DutyCycleParams { rx_time: *a, sleep_time: *b }),
                };
                r.do_rx(mode).await
            }
            Step::Tx => r.do_tx().await,
            Step::Cad(m) => r.do_cad(&modulation(m)).await,
        };
        if let Err(e) = res {
            return Err((i, e));
        }
    }
    Ok(())
}

fn ours(cfg: Cfg, cell: &RefCell<Chip127>, steps: &[Step]) -> Result<Result<(), (usize, RadioError)>, Trapped> {
    ours_after(cfg, cell, None, steps)
}

/// `earlier`: the same driver instance first lives an earlier life (those steps), then the chip
/// is reset to the register image `earlier.1` and the driver re-initialised (what LoRa::init()
/// does); the register image after that re-initialisation is stored back into `earlier.1` so
/// that the reference can start from the same state. Nothing of the earlier life may survive
/// in the driver.
fn ours_after(cfg: Cfg, cell: &RefCell<Chip127>, earlier: Option<(&[Step], &mut [u8; 128])>, steps: &[Step]) -> Result<Result<(), (usize, RadioError)>, Trapped> {
    macro_rules! go {
        ($variant:expr) => {{
            let mut r = Sx127x::new(Spi127(cell), Iv, Config { chip: $variant, tcxo_used: false, tx_boost: cfg.tx_boost, rx_boost: cfg.rx_boost });
            trap(|| {
                block_on(async {
                    if let Some((pre, image)) = earlier {
                        let _ = exec(&mut r, pre).await;
                        *cell.borrow_mut() = Chip127::new(*image);
                        // LoRa::init(): reset, ensure_ready(Sleep), set_standby, then the cold start
                        let _ = r.reset(&mut Delayer).await;
                        let _ = r.ensure_ready(lora_phy::mod_params::RadioMode::Sleep).await;
                        let _ = r.set_standby().await;
                        let _ = r.init_lora(0x3444).await;
                        let _ = r.set_tx_power_and_ramp_time(0, None, false).await;
                        let _ = r.set_irq_params(Some(lora_phy::mod_params::RadioMode::Standby)).await;
                        let start = cell.borrow().regs;
                        *image = start;
                        *cell.borrow_mut() = Chip127::new(start);
                    }
                    exec(&mut r, steps).await
                })
            })
        }};
    }
    match cfg.chip {
        Chip7::Sx1276 => go!(Sx1276),
        Chip7::Sx1272 => go!(Sx1272),
    }
}

fn c_mod(m: &ModP) -> sys::sx127x_lora_mod_params_t {
    // By name: SX127X_LORA_SFn = n; SX127X_LORA_BW_xxx = index in ascending order;
    // SX127X_LORA_CR_4_(4+n) = n (sx127x.h).
    let sf = match m.sf {
        SpreadingFactor::_5 => 5, // not defined by the reference (no SX127X_LORA_SF5)
        SpreadingFactor::_6 => sys::sx127x_lora_sf_e_SX127X_LORA_SF6,
        SpreadingFactor::_7 => sys::sx127x_lora_sf_e_SX127X_LORA_SF7,
        SpreadingFactor::_8 => sys::sx127x_lora_sf_e_SX127X_LORA_SF8,
        SpreadingFactor::_9 => sys::sx127x_lora_sf_e_SX127X_LORA_SF9,
        SpreadingFactor::_10 => sys::sx127x_lora_sf_e_SX127X_LORA_SF10,
        SpreadingFactor::_11 => sys::sx127x_lora_sf_e_SX127X_LORA_SF11,
        SpreadingFactor::_12 => sys::sx127x_lora_sf_e_SX127X_LORA_SF12,
    };
    let bw = match m.bw {
        Bandwidth::_7KHz => sys::sx127x_lora_bw_e_SX127X_LORA_BW_007,
        Bandwidth::_10KHz => sys::sx127x_lora_bw_e_SX127X_LORA_BW_010,
        Bandwidth::_15KHz => sys::sx127x_lora_bw_e_SX127X_LORA_BW_015,
        Bandwidth::_20KHz => sys::sx127x_lora_bw_e_SX127X_LORA_BW_020,
        Bandwidth::_31KHz => sys::sx127x_lora_bw_e_SX127X_LORA_BW_031,
        Bandwidth::_41KHz => sys::sx127x_lora_bw_e_SX127X_LORA_BW_041,
        Bandwidth::_62KHz => sys::sx127x_lora_bw_e_SX127X_LORA_BW_062,
        Bandwidth::_125KHz => sys::sx127x_lora_bw_e_SX127X_LORA_BW_125,
        Bandwidth::_250KHz => sys::sx127x_lora_bw_e_SX127X_LORA_BW_250,
        Bandwidth::_500KHz => sys::sx127x_lora_bw_e_SX127X_LORA_BW_500,
    };
    let cr = match m.cr {
        CodingRate::_4_5 => sys::sx127x_lora_cr_e_SX127X_LORA_CR_4_5,
        CodingRate::_4_6 => sys::sx127x_lora_cr_e_SX127X_LORA_CR_4_6,
        CodingRate::_4_7 => sys::sx127x_lora_cr_e_SX127X_LORA_CR_4_7,
        CodingRate::_4_8 => sys::sx127x_lora_cr_e_SX127X_LORA_CR_4_8,
    };
    sys::sx127x_lora_mod_params_t { sf, bw, cr, ldro: m.ldro }
}

fn c_pkt(p: &PktP) -> sys::sx127x_lora_pkt_params_t {
    sys::sx127x_lora_pkt_params_t {
        preamble_len_in_symb: p.pre,
        header_type: if p.implicit { sys::sx127x_lora_pkt_len_modes_e_SX127X_LORA_PKT_IMPLICIT } else { sys::sx127x_lora_pkt_len_modes_e_SX127X_LORA_PKT_EXPLICIT },
        pld_len_in_bytes: p.len,
        crc_is_on: p.crc,
        invert_iq_is_on: p.iq,
    }
}

/// Runs the reference steps; false if the reference driver refused one of them.
fn reference(cfg: Cfg, cell: &RefCell<Chip127>, steps: &[RStep]) -> bool {
    let id = match cfg.chip {
        Chip7::Sx1276 => c::sx127x_radio_id_e::SX127X_RADIO_ID_SX1276,
        Chip7::Sx1272 => c::sx127x_radio_id_e::SX127X_RADIO_ID_SX1272,
    };
    let mut ctx = c::Context::new(Spi127(cell), id);
    let mut all_ok = true;
    let mut chk = |s: c::Status| {
        if !matches!(s, c::Status::Ok) {
            all_ok = false;
        }
    };
    // Both drivers enter LoRa mode from reset; the file is seeded in LoRa mode, so this only
    // reads RegOpMode and sets the driver's packet type.
    chk(ctx.set_pkt_type(sys::sx127x_pkt_types_e_SX127X_PKT_TYPE_LORA));
    for s in steps {
        match s {
            RStep::Sleep => chk(ctx.set_sleep()),
            RStep::Standby => chk(ctx.set_standby()),
            RStep::Freq(f) => chk(ctx.set_rf_freq(*f)),
            RStep::SyncWord(w) => chk(ctx.set_lora_sync_word(*w)),
            RStep::Raw(a, v) => chk(ctx.write_register(*a as u16, &[*v])),
            RStep::RawRmw(a, and, or) => {
                let mut b = [0u8; 1];
                chk(ctx.read_register(*a as u16, &mut b));
                chk(ctx.write_register(*a as u16, &[(b[0] & *and) | *or]));
            }
            RStep::Mod(m) => chk(ctx.set_lora_mod_params(&c_mod(m))),
            RStep::Pkt(p) => chk(ctx.set_lora_pkt_params(&c_pkt(p))),
            RStep::WriteBuffer(p) => chk(ctx.write_buffer(0, p)),
            RStep::PaCfg { boost, is20 } => chk(ctx.set_pa_cfg(&sys::sx127x_pa_cfg_params_t {
                pa_select: if *boost { sys::sx127x_pa_select_e_SX127X_PA_SELECT_BOOST } else { sys::sx127x_pa_select_e_SX127X_PA_SELECT_RFO },
                is_20_dbm_output_on: *is20,
            })),
            RStep::TxParams(p, ramp) => chk(ctx.set_tx_params(*p, *ramp)),
            RStep::IrqMask(m) => chk(ctx.set_irq_mask(*m)),
            RStep::ClearIrq => chk(ctx.clear_irq_status(sys::sx127x_irq_masks_e_SX127X_IRQ_ALL as u16)),
            RStep::SyncTimeout(n) => chk(ctx.set_lora_sync_timeout(*n)),
            RStep::SetRx(t) => chk(ctx.set_rx(*t)),
            RStep::SetTx => chk(ctx.set_tx()),
            RStep::SetCad => chk(ctx.set_cad()),
        }
    }
    all_ok
}

fn regs_json(r: &[u8; 128], addrs: &[u8]) -> Value {
    let mut v = json!({});
    if let Some(m) = v.as_object_mut() {
        for a in addrs {
            m.insert(format!("0x{:02x}", a), json!(format!("{:02x}", r[*a as usize])));
        }
    }
    v
}

pub fn compare(col: &mut Collector, sc: &Scenario) {
    let chip = sc.cfg.chip.name();
    let detail = |extra: Value| {
        json!({
            "chip": chip, "tx_boost": sc.cfg.tx_boost, "rx_boost": sc.cfg.rx_boost, "op": sc.op, "class": sc.class,
            "ours_steps": sc.ours.iter().map(step_str).collect::<Vec<_>>(),
            "reference_steps": sc.refs.iter().map(rstep_str).collect::<Vec<_>>(),
            "info": extra,
        })
    };
    // a quarter of the comparisons: the driver has already lived through the same steps once, then
    // the chip was reset and the driver re-initialised; both sides then start from the register
    // image that re-initialisation leaves
    let with_earlier_life = sc.prior[5] & 3 == 0 && !sc.ours.is_empty();
    let mut start = sc.prior;
    let cell_o = RefCell::new(Chip127::new(sc.prior));
    let r = if with_earlier_life {
        col.event("sx127x_after_earlier_life");
        ours_after(sc.cfg, &cell_o, Some((&sc.ours, &mut start)), &sc.ours)
    } else {
        ours(sc.cfg, &cell_o, &sc.ours)
    };
    let o = cell_o.into_inner();
    let res = match r {
        Err(t) => {
            col.eval(&format!("sx127x/{}|{}|{}", chip, sc.op, sc.class));
            col.violation(
                &format!("C13|sx127x/{}|{}|panic|{}", chip, sc.op, t.file()),
                "lora-phy panicked instead of performing the reference driver's register accesses",
                detail(json!({"panic": t.msg, "loc": t.loc})),
            );
            return;
        }
        Ok(x) => x,
    };
    if let Err((_, e)) = &res {
        if let Some(why) = sc.rust_may_reject {
            col.event(&format!("skip:rust_rejects:{}:{}", why, err_name(e)));
            return;
        }
    }
    let cell_r = RefCell::new(Chip127::new(start));
    if !reference(sc.cfg, &cell_r, &sc.refs) {
        col.event("skip:ref_rejected");
        return;
    }
    let rf = cell_r.into_inner();
    if let Some(pe) = &rf.protocol_error {
        col.event("skip:reference_spi_protocol_error");
        col.notes.entry("reference_protocol_error".into()).or_insert(json!(pe));
        return;
    }

    col.eval(&format!("sx127x/{}|{}|{}", chip, sc.op, sc.class));
    col.event("compared_sx127x");
    for n in &sc.notes {
        col.event(n);
    }
    if col.want_sample() {
        col.sample(json!({
            "chip": chip, "op": sc.op, "class": sc.class,
            "ours_steps": sc.ours.iter().map(step_str).collect::<Vec<_>>(),
            "reference_steps": sc.refs.iter().map(rstep_str).collect::<Vec<_>>(),
            "ours_register_writes": o.writes.iter().map(|(a, v)| format!("{:02x}={:02x}", a, v)).collect::<Vec<_>>(),
            "reference_register_writes": rf.writes.iter().map(|(a, v)| format!("{:02x}={:02x}", a, v)).collect::<Vec<_>>(),
        }));
    }

    if let Err((i, e)) = &res {
        col.violation(
            &format!("C13|sx127x/{}|{}|rejected|{}", chip, sc.op, err_name(e)),
            "lora-phy refused a value that is legal for the chip and accepted by the reference driver",
            detail(json!({"failed_step": i, "error": format!("{:?}", e)})),
        );
        return;
    }
    if let Some(pe) = &o.protocol_error {
        col.violation(
            &format!("C13|sx127x/{}|{}|spi-protocol", chip, sc.op),
            "lora-phy issued an SPI access that violates the SX127x access protocol",
            detail(json!({"error": pe})),
        );
        return;
    }

    // register file: one violation per differing register (same signature reported once),
    // so a known difference in one register cannot shadow a new one in another
    let diff: Vec<u8> = (0u8..128).filter(|a| (o.regs[*a as usize] ^ rf.regs[*a as usize]) & sc.mask[*a as usize] != 0).collect();
    let mut emitted: Vec<String> = Vec::new();
    for a in &diff {
        let x = (o.regs[*a as usize] ^ rf.regs[*a as usize]) & sc.mask[*a as usize];
        let at = sc.attrib.iter().find(|t| t.addr == *a && t.bits & x != 0);
        let (sop, scls, label, with_xor) = match at {
            Some(t) => (t.op, t.class.as_str(), t.label, t.xor),
            None => (sc.op, sc.sig_class.as_str(), sc.reg_label, sc.sig_xor),
        };
        let reg = match label {
            Some(l) => l.to_string(),
            None => format!("reg{:02x}", a),
        };
        let sig = if with_xor {
            format!("C13|sx127x/{}|{}|{}:{} xor={:02x}", chip, sop, scls, reg, x)
        } else {
            format!("C13|sx127x/{}|{}|{}:{}", chip, sop, scls, reg)
        };
        if emitted.contains(&sig) {
            continue;
        }
        col.violation(
            &sig,
            "final register file of lora-phy differs from the reference driver's (same prior contents)",
            detail(json!({
                "register": format!("{:02x}", a),
                "differing_registers": diff.iter().map(|a| format!("{:02x}", a)).collect::<Vec<_>>(),
                "prior": regs_json(&start, &diff),
                "after_earlier_life_and_reinit": with_earlier_life,
                "ours": regs_json(&o.regs, &diff),
                "reference": regs_json(&rf.regs, &diff),
                "compare_mask": regs_json(&sc.mask, &diff),
                "ours_register_writes": o.writes.iter().map(|(a, v)| format!("{:02x}={:02x}", a, v)).collect::<Vec<_>>(),
                "reference_register_writes": rf.writes.iter().map(|(a, v)| format!("{:02x}={:02x}", a, v)).collect::<Vec<_>>(),
            })),
        );
        emitted.push(sig);
    }
    // FIFO stream
    if o.fifo_written != rf.fifo_written || o.ram[..] != rf.ram[..] {
        col.violation(
            &format!("C13|sx127x/{}|{}|{}:fifo-stream", chip, sc.op, sc.sig_class),
            "bytes pushed into the FIFO differ from the reference driver's",
            detail(json!({"ours": hex(&o.fifo_written), "reference": hex(&rf.fifo_written), "data_buffer_differs": o.ram[..] != rf.ram[..]})),
        );
    }
    // IRQ clears (documented placement; the reference clears only from its DIO handlers)
    if o.irq_clears != sc.irq_clears {
        col.violation(
            &format!("C13|sx127x/{}|{}|{}:irq-clear-writes", chip, sc.op, sc.sig_class),
            "write-1-to-clear accesses to RegIrqFlags differ from the documented placement",
            detail(json!({"ours": hex(&o.irq_clears), "documented": hex(&sc.irq_clears)})),
        );
    }
    // fields that must survive
    for (a, bits, pop, pcls) in &sc.preserve {
        let x = (o.regs[*a as usize] ^ start[*a as usize]) & bits;
        if x != 0 {
            col.violation(
                &format!("C13|sx127x/{}|{}|{}:reg{:02x} clobbered", chip, pop, pcls, a),
                "lora-phy changed a register field the operation does not govern (the reference preserves it)",
                detail(json!({"register": format!("{:02x}", a), "prior": format!("{:02x}", start[*a as usize]), "ours": format!("{:02x}", o.regs[*a as usize]), "must_preserve_bits": format!("{:02x}", bits), "clobbered_bits": format!("{:02x}", x)})),
            );
        }
    }
}

fn step_str(s: &Step) -> String {
    match s {
        Step::Payload(p) => format!("Payload({})", hex(p)),
        o => format!("{:?}", o),
    }
}

fn rstep_str(s: &RStep) -> String {
    match s {
        RStep::WriteBuffer(p) => format!("WriteBuffer({})", hex(p)),
        RStep::Raw(a, v) => format!("Raw(reg{:02x}={:02x})", a, v),
        RStep::RawRmw(a, and, or) => format!("RawRmw(reg{:02x}&{:02x}|{:02x})", a, and, or),
        o => format!("{:?}", o),
    }
}

// ---- independent transcriptions ---------------------------------------------------------------

/// IRQ sources left unmasked per radio mode (lora-phy's documented policy, in the reference
/// driver's generic IRQ bit numbering of sx127x.h).
fn irq_policy(m: IrqMode) -> u16 {
    let tx_done = sys::sx127x_irq_masks_e_SX127X_IRQ_TX_DONE as u16;
    let rx_done = sys::sx127x_irq_masks_e_SX127X_IRQ_RX_DONE as u16;
    let hdr_valid = sys::sx127x_irq_masks_e_SX127X_IRQ_HEADER_VALID as u16;
    let crc_err = sys::sx127x_irq_masks_e_SX127X_IRQ_CRC_ERROR as u16;
    let cad_done = sys::sx127x_irq_masks_e_SX127X_IRQ_CAD_DONE as u16;
    let cad_det = sys::sx127x_irq_masks_e_SX127X_IRQ_CAD_DETECTED as u16;
    let timeout = sys::sx127x_irq_masks_e_SX127X_IRQ_TIMEOUT as u16;
    match m {
        IrqMode::Tx => tx_done,
        IrqMode::RxSingle | IrqMode::RxCont | IrqMode::RxDuty => rx_done | timeout | crc_err | hdr_valid,
        IrqMode::Cad => cad_done | cad_det,
        _ => 0,
    }
}

const RAMP_40_US: u32 = sys::sx127x_ramp_time_e_SX127X_RAMP_40_US;
const RAMP_250_US: u32 = sys::sx127x_ramp_time_e_SX127X_RAMP_250_US;

/// RegLna value lora-phy re-asserts: LnaGain = G1 (001b << 5), LnaBoost(Hf) = 11b when boosted.
fn lna(rx_boost: bool) -> u8 {
    0x20 | if rx_boost { 0x03 } else { 0x00 }
}

/// Mirrors of SX1276 errata 2.3 (receiver spurious reception) as lora-phy applies it at
/// modulation time: 500 kHz keeps AutomaticIFOn set; 62.5..250 kHz clear it and program
/// IfFreq1/2 = 0x40/0x00; narrower bandwidths are left alone (documented in sx1276.rs).
fn errata_2_3(bw: Bandwidth) -> Vec<RStep> {
    match bw_i(bw) {
        9 => vec![RStep::RawRmw(0x31, 0xFF, 0x80)],
        6..=8 => vec![RStep::RawRmw(0x31, 0x7F, 0x00), RStep::Raw(0x2F, 0x40), RStep::Raw(0x30, 0x00)],
        _ => vec![],
    }
}

/// Mirror of SX1276 errata 2.1 (sensitivity at 500 kHz), applied by lora-phy at modulation time
/// on silicon version 0x12: 862-1020 MHz -> 0x36=0x02, 0x3A=0x64; 410-525 MHz -> 0x02, 0x7F;
/// anything else -> 0x36=0x03.
fn errata_2_1(bw: Bandwidth, f: u32) -> Vec<RStep> {
    if bw_i(bw) == 9 && (862_000_000..=1_020_000_000).contains(&f) {
        vec![RStep::Raw(0x36, 0x02), RStep::Raw(0x3A, 0x64)]
    } else if bw_i(bw) == 9 && (410_000_000..=525_000_000).contains(&f) {
        vec![RStep::Raw(0x36, 0x02), RStep::Raw(0x3A, 0x7F)]
    } else {
        vec![RStep::Raw(0x36, 0x03)]
    }
}

/// IQ registers as lora-phy writes them with the packet parameters (reference: at TX/RX start).
fn iq_mirror(iq: bool) -> Vec<RStep> {
    if iq {
        vec![RStep::Raw(0x3B, 0x19)]
    } else {
        vec![RStep::RawRmw(0x33, !0x41, 0x01), RStep::Raw(0x3B, 0x1D)]
    }
}

/// Minimal classes of the modulation-parameter register fields.
fn mod_attrib(chip: Chip7, m: &ModP) -> Vec<Attr> {
    let op = "SetModulationParams";
    let sfc = if sf_n(m.sf) == 6 { "SF6".to_string() } else { "SF7-12".to_string() };
    let bwc = format!("BW{}", bw_name(m.bw));
    let mut v = match chip {
        Chip7::Sx1276 => vec![
            attr(0x1D, 0xF0, op, bwc.clone()),
            attr(0x1D, 0x0E, op, format!("CR4{}", 4 + cr_n(m.cr))),
            attr(0x26, 0x08, op, format!("LDRO{}", m.ldro)),
            attr(0x26, 0xF7, op, "-".to_string()),
        ],
        Chip7::Sx1272 => vec![
            attr(0x1D, 0xC0, op, bwc.clone()),
            attr(0x1D, 0x38, op, format!("CR4{}", 4 + cr_n(m.cr))),
            attr(0x1D, 0x01, op, format!("LDRO{}", m.ldro)),
        ],
    };
    v.extend([
        attr(0x1E, 0xF0, op, format!("SF{}", sf_n(m.sf))),
        attr(0x1E, 0x08, op, "-".to_string()),
        attr(0x31, 0x7F, op, sfc.clone()),
        attr(0x31, 0x80, op, bwc.clone()),
        attr(0x37, 0xFF, op, sfc),
        attr(0x2F, 0xFF, op, bwc.clone()),
        attr(0x30, 0xFF, op, bwc.clone()),
        attr(0x36, 0xFF, op, bwc.clone()),
        attr(0x3A, 0xFF, op, bwc),
    ]);
    v
}

/// Minimal classes of the packet-parameter register fields.
fn pkt_attrib(chip: Chip7, p: &PktP) -> Vec<Attr> {
    let op = "SetPacketParams";
    let pre = if p.pre < 256 { "preamble<256" } else { "preamble>=256" };
    let mut v = match chip {
        Chip7::Sx1276 => vec![attr(0x1D, 0x01, op, format!("header={}", p.implicit as u8)), attr(0x1E, 0x04, op, format!("crc={}", p.crc as u8))],
        Chip7::Sx1272 => vec![attr(0x1D, 0x04, op, format!("header={}", p.implicit as u8)), attr(0x1D, 0x02, op, format!("crc={}", p.crc as u8))],
    };
    v.extend([attr(0x20, 0xFF, op, pre.to_string()), attr(0x21, 0xFF, op, pre.to_string())]);
    v.extend([attr(0x22, 0xFF, op, "payload-length".to_string()), attr(0x23, 0xFF, op, "payload-length".to_string())]);
    for a in v.iter_mut().filter(|a| matches!(a.addr, 0x20..=0x23)) {
        a.xor = false;
    }
    v.extend([attr(0x33, 0xFF, op, format!("iq={}", p.iq as u8)), attr(0x3B, 0xFF, op, format!("iq={}", p.iq as u8))]);
    v.push(Attr { addr: 0x0D, bits: 0xFF, op: "WriteFifo", class: "-".to_string(), label: None, xor: false });
    v
}

/// Registers written by the set-up steps shared by the flows.
fn flow_attrib(irq: IrqMode) -> Vec<Attr> {
    let mut v = vec![attr(0x11, 0xFF, "SetIrqMask", irq.name().to_string())];
    for a in [0x39u8, 0x0E, 0x0F] {
        v.push(Attr { addr: a, bits: 0xFF, op: "InitLoRa/BufferBase", class: "-".to_string(), label: None, xor: false });
    }
    v
}

fn freq_attrib(f: u32) -> Vec<Attr> {
    (0x06u8..=0x08)
        .map(|a| Attr { addr: a, bits: 0xFF, op: "SetRfFrequency", class: pll_round_class(f, 19).to_string(), label: Some("RegFrf"), xor: false })
        .collect()
}

fn mod_class(m: &ModP) -> String {
    format!("SF{}/BW{}/CR4{}/LDRO{}", sf_n(m.sf), bw_name(m.bw), 4 + cr_n(m.cr), m.ldro)
}

fn pkt_class(p: &PktP) -> String {
    format!("pre{}/h{}c{}i{}/len{}", p.pre, p.implicit as u8, p.crc as u8, p.iq as u8, p.len / 32)
}

/// A frequency of the part's band at which truncating and rounding PLL conversions agree
/// (flows are not about the frequency registers; SetRfFrequency has its own generator).
pub fn flow_freq(chip: Chip7, rng: &mut Prng, min: u32) -> u32 {
    let bands: Vec<(u32, u32)> = chip.bands().iter().copied().filter(|b| b.1 >= min).collect();
    let b = bands[rng.below(bands.len() as u64) as usize];
    let lo = b.0.max(min);
    let mut f = rng.range(lo as u64, (b.1 - 1000) as u64) as u32;
    while pll_round_class(f, 19) == "frac>=.5" {
        f += 13;
    }
    f
}

// ---- scenario builders --------------------------------------------------------------------------

fn base(op: &'static str, cfg: Cfg, prior: [u8; 128], class: String, sig_class: String) -> Scenario {
    Scenario {
        op,
        class,
        sig_class,
        sig_xor: true,
        cfg,
        prior,
        ours: vec![],
        refs: vec![],
        mask: full_mask(),
        preserve: vec![],
        irq_clears: vec![],
        rust_may_reject: None,
        notes: vec![],
        attrib: vec![],
        reg_label: None,
    }
}

/// Sleep (from any mode but sleep) / standby (from any mode).
pub fn sc_mode(cfg: Cfg, rng: &mut Prng, sleep: bool, from_mode: u8) -> Scenario {
    let p = prior(cfg.chip, rng, 0x80 | (from_mode & 7), 0x12);
    let mut s = base(if sleep { "SetSleep" } else { "SetStandby" }, cfg, p, format!("from-mode{}", from_mode & 7), "-".into());
    if sleep {
        s.ours = vec![Step::Sleep];
        s.refs = vec![RStep::Sleep];
    } else {
        s.ours = vec![Step::Standby];
        s.refs = vec![RStep::Standby];
    }
    s
}

pub fn sc_base(cfg: Cfg, rng: &mut Prng, tx: usize, rx: usize) -> Scenario {
    let p = prior(cfg.chip, rng, 0x81, 0x12);
    let mut s = base("SetBufferBaseAddress", cfg, p, format!("tx{}/rx{}/{}", tx / 64, rx / 64, if tx == rx { "equal" } else { "split" }), if tx == rx { "equal".into() } else { "split".into() });
    s.sig_xor = false;
    s.ours = vec![Step::Base(tx, rx)];
    s.refs = vec![RStep::Raw(0x0E, tx as u8), RStep::Raw(0x0F, rx as u8)];
    s
}

pub fn sc_freq(cfg: Cfg, rng: &mut Prng, f: u32) -> Scenario {
    let p = prior(cfg.chip, rng, 0x81, 0x12);
    let inb = if cfg.chip.in_band(f) { "inband" } else { "outband" };
    let mut s = base("SetRfFrequency", cfg, p, format!("{}/{}MHz/{}/{}", band_of(f), f / 1_000_000, pll_round_class(f, 19), inb), pll_round_class(f, 19).into());
    s.sig_xor = false;
    s.reg_label = Some("RegFrf");
    s.ours = vec![Step::Channel(f)];
    s.refs = vec![RStep::Freq(f)];
    s
}

pub fn sc_mod(cfg: Cfg, rng: &mut Prng, m: ModP, armed: bool) -> Scenario {
    let version = if armed { 0x12 } else { [0x11u8, 0x13, 0x22, 0x00][rng.below(4) as usize] };
    let p = prior(cfg.chip, rng, 0x81, version);
    let mut s = base("SetModulationParams", cfg, p, format!("{}/quirk{}", mod_class(&m), armed as u8), format!("BW{}", bw_name(m.bw)));
    s.attrib = mod_attrib(cfg.chip, &m);
    if sf_n(m.sf) == 5 {
        s.rust_may_reject = Some("sf5");
    }
    if !cfg.chip.supports_bw(m.bw) {
        s.rust_may_reject = Some("bandwidth_unsupported_by_part");
    }
    match cfg.chip {
        Chip7::Sx1276 => {
            if armed {
                // init_lora arms the version-0x12 quirk; it also writes sync word and base addresses
                s.ours.push(Step::Init(0x1424));
                s.refs.extend([RStep::SyncWord(0x12), RStep::Raw(0x0E, 0x00), RStep::Raw(0x0F, 0x00)]);
                s.attrib.extend(flow_attrib(IrqMode::NoMode));
            }
            s.ours.push(Step::Mod(m));
            s.refs.push(RStep::Mod(m));
            s.refs.extend(errata_2_3(m.bw));
            if armed {
                s.refs.extend(errata_2_1(m.bw, m.freq));
            }
        }
        Chip7::Sx1272 => {
            s.ours.push(Step::Mod(m));
            s.refs.push(RStep::Mod(m));
        }
    }
    s
}

fn pkt_masks(s: &mut Scenario, p: &PktP, payload_written: bool) {
    // RegMaxPayloadLength is left at reset by lora-phy (RX size guarded in software)
    s.mask[0x23] = 0;
    // RegPayloadLength: lora-phy writes it with the packet parameters only in implicit-header
    // mode, otherwise at set_payload time; the reference pins it with the packet parameters
    if !p.implicit && !payload_written {
        s.mask[0x22] = 0;
    }
}

pub fn sc_pkt(cfg: Cfg, rng: &mut Prng, p: PktP, from_sleep: bool) -> Scenario {
    let pr = prior(cfg.chip, rng, if from_sleep { 0x80 } else { 0x81 }, 0x12);
    let mut s = base("SetPacketParams", cfg, pr, pkt_class(&p), format!("h{}c{}i{}", p.implicit as u8, p.crc as u8, p.iq as u8));
    // the reference call is a composite: standby + both FIFO base addresses = 0 first
    s.attrib = pkt_attrib(cfg.chip, &p);
    s.ours = vec![Step::Standby, Step::Base(0, 0), Step::Pkt(p)];
    s.refs = vec![RStep::Pkt(p)];
    s.refs.extend(iq_mirror(p.iq));
    pkt_masks(&mut s, &p, false);
    if p.iq {
        // direction-specific bits are compared in the TX and RX flows
        s.mask[0x33] &= !0x41;
        s.notes.push("note:inverted_iq_direction_bits_compared_in_flows");
    }
    s
}

pub fn sc_sync(cfg: Cfg, rng: &mut Prng, w: u16) -> Option<Scenario> {
    let [hi, lo] = w.to_be_bytes();
    if hi & 0x0F != 0x04 || lo & 0x0F != 0x04 {
        return None;
    }
    let pr = prior(cfg.chip, rng, 0x81, 0x12);
    let mut s = base("SetLoRaSyncWord", cfg, pr, format!("sync{:x}x", hi >> 4), "-".into());
    s.sig_xor = false;
    s.ours = vec![Step::Sync(w)];
    s.refs = vec![RStep::SyncWord((hi & 0xF0) | (lo >> 4))];
    Some(s)
}

pub fn sc_fifo(cfg: Cfg, rng: &mut Prng, mut p: PktP, payload: Vec<u8>) -> Scenario {
    p.len = payload.len() as u8;
    let pr = prior(cfg.chip, rng, 0x81, 0x12);
    let mut s = base("WriteFifo", cfg, pr, format!("len{}/h{}", payload.len() / 16, p.implicit as u8), "-".into());
    s.attrib = pkt_attrib(cfg.chip, &p);
    s.ours = vec![Step::Standby, Step::Base(0, 0), Step::Pkt(p), Step::Payload(payload.clone())];
    s.refs = vec![RStep::Pkt(p), RStep::WriteBuffer(payload)];
    s.refs.extend(iq_mirror(p.iq));
    pkt_masks(&mut s, &p, true);
    if p.iq {
        s.mask[0x33] &= !0x41;
    }
    s
}

/// PA configuration + TX power + ramp. Returns None (with the reason) when the request is not
/// expressible on both sides.
pub fn sc_power(cfg: Cfg, rng: &mut Prng, dbm: i32, prep: bool) -> Result<Scenario, &'static str> {
    let pr = prior(cfg.chip, rng, 0x81, 0x12);
    let ramp = if prep { RAMP_40_US } else { RAMP_250_US };
    let (lo, hi) = match (cfg.chip, cfg.tx_boost) {
        (_, true) => (2, 20),
        (Chip7::Sx1276, false) => (-4, 14),
        (Chip7::Sx1272, false) => (-1, 14),
    };
    if cfg.chip == Chip7::Sx1276 && !cfg.tx_boost && dbm >= 15 {
        // RFO reaches +15 dBm on the reference (MaxPower 7, OutputPower 15); lora-phy's range ends at 14
        return Err("skip:rust_inexpressible:sx1276_rfo_15dBm");
    }
    let p = dbm.clamp(lo, hi);
    let cls = if dbm < lo {
        "below-range(clamped)".to_string()
    } else if dbm > hi {
        "above-range(clamped)".to_string()
    } else if cfg.tx_boost {
        (if p > 17 { "boost20" } else { "boost17" }).to_string()
    } else if cfg.chip == Chip7::Sx1276 {
        (if p > 0 { "rfo-maxpower7" } else { "rfo-maxpower0" }).to_string()
    } else {
        "rfo".to_string()
    };
    let mut s = base(
        "SetPaConfig+SetTxParams",
        cfg,
        pr,
        format!("{}/{}dBm/{}", if cfg.tx_boost { "boost" } else { "rfo" }, p, if prep { "ramp40" } else { "ramp250" }),
        format!("{}/{}", cls, if prep { "ramp40" } else { "ramp250" }),
    );
    if dbm != p {
        s.notes.push("note:power_out_of_range_compared_at_nearest_legal_value");
    }
    s.ours = vec![Step::Power { dbm, prep }];
    let is20 = cfg.tx_boost && p > 17;
    s.refs = vec![RStep::PaCfg { boost: cfg.tx_boost, is20 }, RStep::TxParams(p as i8, ramp)];
    if cfg.chip == Chip7::Sx1276 {
        // OCP policy of lora-phy: 240 mA with the +20 dBm option, 100 mA otherwise (OcpOn | trim)
        s.refs.push(RStep::Raw(0x0B, 0x20 | if is20 { 0x1B } else { 0x0B }));
    }
    if cfg.tx_boost || cfg.chip == Chip7::Sx1272 {
        // MaxPower [6:4] is unused (SX1272: no such field): lora-phy writes 0, the reference keeps the prior bits
        s.mask[0x09] &= !0x70;
    }
    Ok(s)
}

fn dio_rules(s: &mut Scenario, m: IrqMode) {
    // RegDioMapping1: the reference governs DIO0 only (and keeps the other fields in a shadow
    // copy); lora-phy additionally routes DIO1/DIO3 in RX (policy without a reference counterpart)
    match m {
        IrqMode::RxSingle | IrqMode::RxCont | IrqMode::RxDuty => {
            s.mask[0x40] = 0xC0;
            s.preserve.push((0x40, 0x0C, "SetIrqMask", m.name().to_string()));
        }
        _ => {
            s.mask[0x40] = 0xC0;
            s.preserve.push((0x40, 0x3F, "SetIrqMask", m.name().to_string()));
        }
    }
}

pub fn sc_irq(cfg: Cfg, rng: &mut Prng, m: IrqMode) -> Scenario {
    let pr = prior(cfg.chip, rng, 0x81, 0x12);
    let mut s = base("SetIrqMask", cfg, pr, m.name().into(), m.name().into());
    s.ours = vec![Step::Irq(m)];
    s.refs = vec![RStep::IrqMask(irq_policy(m)), RStep::ClearIrq];
    dio_rules(&mut s, m);
    // DIO0 routing belongs to TX/RX/CAD start on the reference side
    s.mask[0x40] = 0;
    s.irq_clears = vec![0xFF];
    s
}

pub fn sc_txflow(cfg: Cfg, rng: &mut Prng, mut p: PktP, payload: Vec<u8>, from_sleep: bool) -> Scenario {
    p.len = payload.len() as u8;
    let pr = prior(cfg.chip, rng, if from_sleep { 0x80 } else { 0x81 }, 0x12);
    let mut s = base("TxStart", cfg, pr, format!("h{}c{}i{}/len{}", p.implicit as u8, p.crc as u8, p.iq as u8, payload.len() / 64), "-".into());
    s.attrib = pkt_attrib(cfg.chip, &p);
    s.attrib.extend(flow_attrib(IrqMode::Tx));
    s.ours = vec![Step::Standby, Step::Base(0, 0), Step::Pkt(p), Step::Payload(payload.clone()), Step::Irq(IrqMode::Tx), Step::Tx];
    s.refs = vec![RStep::Pkt(p), RStep::WriteBuffer(payload), RStep::IrqMask(irq_policy(IrqMode::Tx)), RStep::ClearIrq, RStep::SetTx];
    pkt_masks(&mut s, &p, true);
    dio_rules(&mut s, IrqMode::Tx);
    if p.iq {
        // InvertIQ RX path bit is unused while transmitting
        s.mask[0x33] &= !0x40;
    }
    s.irq_clears = vec![0xFF];
    s
}

pub fn sc_rxflow(cfg: Cfg, rng: &mut Prng, m: ModP, p: PktP, kind: RxKind) -> Scenario {
    let pr = prior(cfg.chip, rng, 0x81, 0x12);
    let (irq, kcls, n_ref) = match kind {
        RxKind::Single(n) => (IrqMode::RxSingle, format!("single/{}", symb7_class(n)), Some(n.clamp(4, 1023))),
        RxKind::Continuous => (IrqMode::RxCont, "cont".to_string(), None),
        RxKind::Duty(..) => (IrqMode::RxDuty, "duty".to_string(), None),
    };
    let mut s = base(
        "RxStart",
        cfg,
        pr,
        format!("{}/BW{}/iq{}/boost{}", kcls, bw_name(m.bw), p.iq as u8, cfg.rx_boost as u8),
        "-".into(),
    );
    // registers governed by the set-up steps of the flow are attributed to those operations
    s.attrib = mod_attrib(cfg.chip, &m);
    s.attrib.extend(pkt_attrib(cfg.chip, &p));
    s.attrib.extend(freq_attrib(m.freq));
    s.attrib.extend(flow_attrib(irq));
    let kname = match kind {
        RxKind::Single(_) => "single",
        RxKind::Continuous => "cont",
        RxKind::Duty(..) => "duty",
    };
    s.attrib.push(attr(0x01, 0xFF, "RxStart", kname.to_string()));
    s.attrib.push(attr(0x0C, 0xFF, "RxStart", format!("boost{}", cfg.rx_boost as u8)));
    s.attrib.push(attr(0x1E, 0x03, "RxStart", kcls.clone()));
    s.attrib.push(Attr { addr: 0x1F, bits: 0xFF, op: "RxStart", class: kcls.clone(), label: None, xor: false });
    if matches!(kind, RxKind::Duty(..)) {
        s.rust_may_reject = Some("rx_duty_cycle_unsupported");
    }
    if cfg.chip == Chip7::Sx1276 {
        s.ours.push(Step::Init(0x1424));
        s.refs.extend([RStep::SyncWord(0x12), RStep::Raw(0x0E, 0x00), RStep::Raw(0x0F, 0x00)]);
    }
    s.ours.extend([Step::Channel(m.freq), Step::Mod(m), Step::Standby, Step::Base(0, 0), Step::Pkt(p), Step::Irq(irq), Step::Rx(kind)]);
    s.refs.extend([RStep::Freq(m.freq), RStep::Mod(m), RStep::Pkt(p), RStep::IrqMask(irq_policy(irq)), RStep::ClearIrq]);
    match n_ref {
        Some(n) => {
            s.refs.push(RStep::SyncTimeout(n));
            s.refs.push(RStep::SetRx(0));
        }
        None => {
            s.refs.push(RStep::SyncTimeout(0));
            s.refs.push(RStep::SetRx(0x00FF_FFFF));
            // the symbol time-out is not used in continuous mode: lora-phy zeroes it, the reference leaves it
            s.mask[0x1E] &= !0x03;
            s.mask[0x1F] = 0;
        }
    }
    // lora-phy re-asserts the LNA gain at RX start
    s.refs.push(RStep::Raw(0x0C, lna(cfg.rx_boost)));
    if let RxKind::Single(n) = kind {
        if !(4..=1023).contains(&n) {
            s.notes.push("note:symbol_timeout_out_of_range_compared_at_nearest_legal_value");
        }
    }
    pkt_masks(&mut s, &p, false);
    dio_rules(&mut s, irq);
    if p.iq {
        // InvertIQ TX path bit is unused while receiving
        s.mask[0x33] &= !0x01;
    }
    if cfg.chip == Chip7::Sx1276 && bw_i(m.bw) < 6 {
        // errata 2.3 for bandwidths below 62.5 kHz (IF + RF offset) is not applied by lora-phy
        // (documented in sx1276.rs); the reference applies it inside set_rx
        s.mask[0x2F] = 0;
        s.mask[0x30] = 0;
        s.mask[0x31] &= 0x7F;
        s.mask[0x06] = 0;
        s.mask[0x07] = 0;
        s.mask[0x08] = 0;
        s.notes.push("note:rx_narrow_bw_errata_2_3_registers_masked");
    }
    s.irq_clears = vec![0xFF, 0xFF];
    s
}

pub fn sc_cadflow(cfg: Cfg, rng: &mut Prng, m: ModP) -> Scenario {
    let pr = prior(cfg.chip, rng, 0x81, 0x12);
    let mut s = base("CadStart", cfg, pr, format!("SF{}/boost{}", sf_n(m.sf), cfg.rx_boost as u8), "-".into());
    s.attrib = flow_attrib(IrqMode::Cad);
    s.attrib.push(attr(0x0C, 0xFF, "CadStart", format!("boost{}", cfg.rx_boost as u8)));
    s.ours = vec![Step::Irq(IrqMode::Cad), Step::Cad(m)];
    s.refs = vec![RStep::IrqMask(irq_policy(IrqMode::Cad)), RStep::ClearIrq, RStep::SetCad, RStep::Raw(0x0C, lna(cfg.rx_boost))];
    dio_rules(&mut s, IrqMode::Cad);
    s.irq_clears = vec![0xFF];
    s
}

fn symb7_class(n: u16) -> &'static str {
    match n {
        0..=3 => "symb<4(clamped)",
        4..=255 => "symb=4..255",
        256..=1023 => "symb=256..1023",
        _ => "symb>1023(clamped)",
    }
}
