#!/usr/bin/env python3
"""tools/save_seed.py <Cxx> <a|b> <demo dest path> "<demo cmd>" "<caught by>" "<initially missed by / strengthening>" """
import sys, os, shutil, json, re
prop, var, dest, cmd, caught, missed = sys.argv[1:7]
src = f"/tmp/{os.environ.get('SEED_BASE', 'seed')}-{prop}/OUT/{var}"
dst = f"/verif/seeded/{prop}{var}"
os.makedirs(dst, exist_ok=True)
for f in ("patch.diff", "demo.rs", "README.md"):
    shutil.copy(os.path.join(src, f), os.path.join(dst, f))
readme = open(os.path.join(src, "README.md")).read()
meta = {
    "id": f"{prop}{var}",
    "breaks_property": prop,
    "origin": "independent sub-agent given only the property text and a scratch worktree of /repo (nothing from /verif)",
    "needs_to_manifest": re.sub(r"\s+", " ", readme)[:1200],
    "demo": {"place_at": dest, "run": cmd},
    "confirmed": "tools/verify_seed.sh in a scratch worktree at /repo HEAD: patch applies; `cargo test --workspace --offline` 363 passed 0 failed with the patch; demo FAILS with the patch and PASSES without it",
    "checks_run": "tools/mutant.sh (scratch worktree + scratch copy of the harness, quick tier, seed 1)",
    "caught_by": caught,
    "initially_missed_by": missed,
}
json.dump(meta, open(os.path.join(dst, "meta.json"), "w"), indent=1)
print("saved", dst)
