//! Regional reference tables, transcribed from RP002-1.0.x / LoRaWAN 1.0.x Regional
//! Parameters independently of /repo (DESIGN 4.4). Cells that differ between editions or
//! that I cannot pin with certainty are set-valued (every defensible value accepted).

#[derive(Clone, Copy, Debug, PartialEq, Eq, Hash)]
pub enum Reg {
    EU868,
    EU433,
    IN865,
    AS923_1,
    AS923_2,
    AS923_3,
    AS923_4,
    US915,
    AU915,
}

pub const ALL: [Reg; 9] = [Reg::EU868, Reg::EU433, Reg::IN865, Reg::AS923_1, Reg::AS923_2, Reg::AS923_3, Reg::AS923_4, Reg::US915, Reg::AU915];

impl Reg {
    pub fn name(self) -> &'static str {
        match self {
            Reg::EU868 => "EU868",
            Reg::EU433 => "EU433",
            Reg::IN865 => "IN865",
            Reg::AS923_1 => "AS923_1",
            Reg::AS923_2 => "AS923_2",
            Reg::AS923_3 => "AS923_3",
            Reg::AS923_4 => "AS923_4",
            Reg::US915 => "US915",
            Reg::AU915 => "AU915",
        }
    }
    pub fn fixed(self) -> bool {
        matches!(self, Reg::US915 | Reg::AU915)
    }
    pub fn is_as923(self) -> bool {
        matches!(self, Reg::AS923_1 | Reg::AS923_2 | Reg::AS923_3 | Reg::AS923_4)
    }
    fn as923_offset(self) -> u32 {
        match self {
            Reg::AS923_2 => 1_800_000,
            Reg::AS923_3 => 6_600_000,
            Reg::AS923_4 => 5_900_000,
            _ => 0,
        }
    }

    /// The widest band any edition/national rule allows for the plan: a frequency outside it
    /// is unambiguously out of band. (lo, hi) inclusive, Hz.
    pub fn band(self) -> (u32, u32) {
        match self {
            Reg::EU868 => (863_000_000, 870_000_000),
            Reg::EU433 => (433_050_000, 434_790_000),
            Reg::IN865 => (865_000_000, 867_000_000),
            Reg::AS923_1 | Reg::AS923_2 | Reg::AS923_3 => (915_000_000, 928_000_000),
            // RP002: end-devices of group AS923-4 operate in the 917 to 920 MHz band
            Reg::AS923_4 => (917_000_000, 920_000_000),
            Reg::US915 => (902_000_000, 928_000_000),
            Reg::AU915 => (915_000_000, 928_000_000),
        }
    }
    /// A sub-band every edition / national rule of the plan allows: a frequency inside it is
    /// unambiguously valid.
    pub fn inner_band(self) -> (u32, u32) {
        match self {
            Reg::AS923_1 => (923_000_000, 925_000_000),
            Reg::AS923_2 => (921_000_000, 923_000_000),
            Reg::AS923_3 => (916_000_000, 918_000_000),
            Reg::AS923_4 => (917_000_000, 920_000_000),
            Reg::AU915 => (915_000_000, 928_000_000),
            r => r.band(),
        }
    }
    pub fn clearly_valid_freq(self, f: u32) -> bool {
        let (lo, hi) = self.inner_band();
        (lo..=hi).contains(&f)
    }
    pub fn in_band(self, f: u32) -> bool {
        let (lo, hi) = self.band();
        (lo..=hi).contains(&f)
    }

    /// Default (join) channels of dynamic plans.
    pub fn default_channels(self) -> Vec<u32> {
        match self {
            Reg::EU868 => vec![868_100_000, 868_300_000, 868_500_000],
            Reg::EU433 => vec![433_175_000, 433_375_000, 433_575_000],
            Reg::IN865 => vec![865_062_500, 865_402_500, 865_985_000],
            r if r.is_as923() => vec![923_200_000 - r.as923_offset(), 923_400_000 - r.as923_offset()],
            _ => vec![],
        }
    }

    /// Uplink frequency of fixed-plan channel k (0..72).
    pub fn fixed_uplink(self, k: u32) -> u32 {
        match self {
            Reg::US915 => {
                if k < 64 {
                    902_300_000 + 200_000 * k
                } else {
                    903_000_000 + 1_600_000 * (k - 64)
                }
            }
            Reg::AU915 => {
                if k < 64 {
                    915_200_000 + 200_000 * k
                } else {
                    915_900_000 + 1_600_000 * (k - 64)
                }
            }
            _ => 0,
        }
    }
    pub fn fixed_channel_of(self, f: u32) -> Option<u32> {
        (0..72).find(|k| self.fixed_uplink(*k) == f)
    }
    /// Downlink (RX1) frequency of fixed-plan downlink channel j (0..8).
    pub fn fixed_downlink(self, j: u32) -> u32 {
        923_300_000 + 600_000 * j
    }

    /// LoRa data rates the region defines: DR -> (SF, BW Hz). FSK and LR-FHSS rates are not
    /// LoRa rates and are not listed.
    pub fn lora_dr(self, dr: u8) -> Option<(u8, u32)> {
        match self {
            Reg::EU868 | Reg::EU433 => match dr {
                0..=5 => Some((12 - dr, 125_000)),
                6 => Some((7, 250_000)),
                _ => None,
            },
            Reg::IN865 => match dr {
                0..=5 => Some((12 - dr, 125_000)),
                _ => None,
            },
            Reg::AS923_1 | Reg::AS923_2 | Reg::AS923_3 | Reg::AS923_4 => match dr {
                0..=5 => Some((12 - dr, 125_000)),
                6 => Some((7, 250_000)),
                _ => None,
            },
            Reg::US915 => match dr {
                0..=3 => Some((10 - dr, 125_000)),
                4 => Some((8, 500_000)),
                8..=13 => Some((12 - (dr - 8), 500_000)),
                _ => None,
            },
            Reg::AU915 => match dr {
                0..=5 => Some((12 - dr, 125_000)),
                6 => Some((8, 500_000)),
                8..=13 => Some((12 - (dr - 8), 500_000)),
                _ => None,
            },
        }
    }
    /// Is (sf, bw) some LoRa rate of the region?
    pub fn is_lora_rate(self, sf: u8, bw: u32) -> bool {
        (0..16).any(|d| self.lora_dr(d) == Some((sf, bw)))
    }
    /// DR values that *some* edition of the regional parameters defines (LoRa, FSK or
    /// LR-FHSS). A DR outside this set is unambiguously undefined.
    pub fn dr_defined_in_some_edition(self, dr: u8) -> bool {
        match self {
            Reg::EU868 => dr <= 11,
            Reg::EU433 => dr <= 7,
            Reg::IN865 => dr <= 5 || dr == 7,
            r if r.is_as923() => dr <= 7,
            Reg::US915 => dr <= 6 || (8..=13).contains(&dr),
            Reg::AU915 => dr <= 7 || (8..=13).contains(&dr),
            _ => false,
        }
    }

    /// Maximum EIRP in dBm: the set of defensible values (largest is the bound used).
    pub fn max_eirp(self) -> f32 {
        match self {
            Reg::EU868 => 16.0,
            Reg::EU433 => 12.15,
            Reg::IN865 => 30.0,
            r if r.is_as923() => 16.0,
            _ => 30.0,
        }
    }
    /// Highest defined TXPower index.
    pub fn max_txpower_index(self) -> u8 {
        match self {
            Reg::EU868 => 7,
            Reg::EU433 => 5,
            Reg::IN865 => 10,
            r if r.is_as923() => 7,
            _ => 14,
        }
    }
    /// EIRP commanded by TXPower index p (dBm).
    pub fn txpower_eirp(self, p: u8) -> f32 {
        self.max_eirp() - 2.0 * p as f32
    }

    pub fn max_rx1_offset(self) -> u8 {
        match self {
            Reg::EU868 | Reg::EU433 => 5,
            Reg::IN865 => 7,
            r if r.is_as923() => 7,
            Reg::US915 => 3,
            Reg::AU915 => 5,
            _ => 0,
        }
    }

    /// RX2 default (frequency, DR).
    pub fn rx2_default(self) -> (u32, u8) {
        match self {
            Reg::EU868 => (869_525_000, 0),
            Reg::EU433 => (434_665_000, 0),
            Reg::IN865 => (866_550_000, 2),
            r if r.is_as923() => (923_200_000 - r.as923_offset(), 2),
            _ => (923_300_000, 8),
        }
    }

    /// RX1 data rate for (uplink DR, offset): the set of defensible answers.
    /// Empty set = cell not defined (uplink DR not LoRa / offset beyond the maximum).
    pub fn rx1_dr(self, up: u8, off: u8) -> Vec<u8> {
        if off > self.max_rx1_offset() {
            return vec![];
        }
        match self {
            Reg::EU868 | Reg::EU433 => {
                if up <= 7 {
                    vec![up.saturating_sub(off)]
                } else {
                    vec![]
                }
            }
            Reg::IN865 => {
                if up > 5 && up != 7 {
                    return vec![];
                }
                // effective offset: 0..5 -> 0..5, 6 -> -1, 7 -> -2; DR6 is RFU
                let eff: i32 = if off <= 5 { off as i32 } else { 5 - off as i32 };
                let mut d = up as i32 - eff;
                d = d.clamp(0, 7);
                // table (RP002 IN865): the cells that would land on DR6 read DR5 (for up DR5
                // off 6) — DR5->[5,4,3,2,1,0,5,7], DR4->[..,5,5]? The text table gives for
                // upstream DR4: 4,3,2,1,0,0,5,5 and DR7: 7,5,5,4,3,2,7,7.
                let table: [[u8; 8]; 8] = [
                    [0, 0, 0, 0, 0, 0, 1, 2],
                    [1, 0, 0, 0, 0, 0, 2, 3],
                    [2, 1, 0, 0, 0, 0, 3, 4],
                    [3, 2, 1, 0, 0, 0, 4, 5],
                    [4, 3, 2, 1, 0, 0, 5, 5],
                    [5, 4, 3, 2, 1, 0, 5, 7],
                    [0, 0, 0, 0, 0, 0, 0, 0],
                    [7, 5, 5, 4, 3, 2, 7, 7],
                ];
                let t = table[up as usize][off as usize];
                let mut v = vec![t];
                if d as u8 != t && d != 6 {
                    v.push(d as u8);
                }
                v
            }
            r if r.is_as923() => {
                if up > 7 {
                    return vec![];
                }
                let eff: i32 = if off <= 5 { off as i32 } else { 5 - off as i32 };
                let d = up as i32 - eff;
                // MinDR = 0 (DownlinkDwellTime 0) or 2 (DownlinkDwellTime 1, the state before
                // any TxParamSetupReq is implementation-defined); upper clamp 5 (older
                // editions) or 7.
                let mut v = vec![];
                for lo in [0, 2] {
                    for hi in [5, 7] {
                        let x = d.clamp(lo, hi) as u8;
                        if !v.contains(&x) {
                            v.push(x);
                        }
                    }
                }
                v
            }
            Reg::US915 => match up {
                0..=4 => vec![(10 + up as i32 - off as i32).clamp(8, 13) as u8],
                5..=6 => vec![(5 + up as i32 - off as i32).clamp(8, 11) as u8],
                _ => vec![],
            },
            Reg::AU915 => match up {
                0..=6 => vec![(8 + up as i32 - off as i32).clamp(8, 13) as u8],
                7 => vec![if off == 0 { 9 } else { 8 }],
                _ => vec![],
            },
            _ => vec![],
        }
    }

    /// ChMaskCntl values that are *not* RFU for the plan in any edition.
    pub fn chmaskcntl_valid(self, c: u8) -> bool {
        match self {
            Reg::US915 | Reg::AU915 => c <= 7,
            _ => c == 0 || c == 6,
        }
    }

    /// Join data rates allowed on a fixed-plan join channel k: (sf, bw) set.
    pub fn fixed_join_rates(self, k: u32) -> Vec<(u8, u32)> {
        match self {
            Reg::US915 => {
                if k < 64 {
                    vec![(10, 125_000)]
                } else {
                    vec![(8, 500_000)]
                }
            }
            Reg::AU915 => {
                if k < 64 {
                    // DR0 (regional parameters 1.0.2/1.0.3) or DR2 (RP002, dwell-time era)
                    vec![(12, 125_000), (10, 125_000)]
                } else {
                    vec![(8, 500_000)]
                }
            }
            _ => vec![],
        }
    }

    /// A MACPayload length that every edition allows at this DR (clearly within), and one
    /// that every edition forbids (clearly beyond). None when the DR is not a LoRa rate.
    pub fn payload_bounds(self, dr: u8) -> Option<(usize, usize)> {
        let (sf, bw) = self.lora_dr(dr)?;
        // smallest M over editions / dwell-time settings that can apply by default
        let within = match (sf, bw) {
            (12, 125_000) | (11, 125_000) => 59,
            (10, 125_000) => if matches!(self, Reg::US915) { 19 } else { 59 },
            (9, 125_000) => if matches!(self, Reg::US915) { 61 } else { 123 },
            (8, 125_000) => if matches!(self, Reg::US915) { 133 } else { 230 },
            (7, 125_000) => 230,
            (7, 250_000) => 230,
            (12, 500_000) => 41,
            (11, 500_000) => 117,
            _ => 230,
        };
        Some((within, 250))
    }
}

pub fn bw_hz(bw: lora_modulation::Bandwidth) -> u32 {
    use lora_modulation::Bandwidth::*;
    match bw {
        _7KHz => 7_800,
        _10KHz => 10_400,
        _15KHz => 15_600,
        _20KHz => 20_800,
        _31KHz => 31_250,
        _41KHz => 41_700,
        _62KHz => 62_500,
        _125KHz => 125_000,
        _250KHz => 250_000,
        _500KHz => 500_000,
    }
}

pub fn sf_num(sf: lora_modulation::SpreadingFactor) -> u8 {
    use lora_modulation::SpreadingFactor::*;
    match sf {
        _5 => 5,
        _6 => 6,
        _7 => 7,
        _8 => 8,
        _9 => 9,
        _10 => 10,
        _11 => 11,
        _12 => 12,
    }
}
