//! C13 — SX126x/SX127x drivers emit the same SPI bytes as Semtech's reference driver.
//!
//! Differential monitor: every case runs lora-phy's `RadioKind` implementation and the SWL2001
//! C driver (through smtc-modem-cores) on recording devices that start from the same register
//! contents, and compares wire-canonical transcripts (SX126x) or chip-visible outcome (SX127x).
//! The C driver keeps all state in the per-call context (`sx127x_t` lives inside
//! `smtc_modem_cores::sx127x::Context`, the SX126x driver is stateless; the only globals are
//! read-only tables), so every case owns its contexts and no lock is needed.

use crate::params::*;
use crate::s126::{self, Op, RxKind, CHIPS, IRQ_MODES};
use crate::s127::{self, Cfg, Chip7, ModP, PktP, CHIPS7};
use lrv_core::*;

pub struct C13;

/// Enumerated sweep cut into cases of `chunk` points (full tiers) or sampled at evenly spaced
/// positions (sanitizer tier).
struct Sweep {
    total: u64,
    chunk: u64,
    cases: u64,
    sampled: bool,
}

impl Sweep {
    fn new(total: u64, tier: Tier, chunk: u64, san_cases: u64, san_chunk: u64) -> Sweep {
        if tier == Tier::Sanitizer {
            Sweep { total, chunk: san_chunk.min(total), cases: san_cases.min(total), sampled: true }
        } else {
            Sweep { total, chunk, cases: total.div_ceil(chunk), sampled: false }
        }
    }
    fn range(&self, idx: u64) -> std::ops::Range<u64> {
        if self.sampled {
            let start = (idx % self.cases.max(1)) * self.total / self.cases.max(1);
            start..(start + self.chunk).min(self.total)
        } else {
            let start = (idx * self.chunk).min(self.total);
            start..(start + self.chunk).min(self.total)
        }
    }
}

// ---- sweep definitions (shared by gens() and run_case()) ----------------------------------

const MODE_OPS: u64 = 2 + 1 + 1 + 1 + 10 + 1 + 1 + 8;

fn band_step(_tier: Tier) -> u32 {
    100
}
fn stride(tier: Tier) -> u32 {
    match tier {
        Tier::Thorough => 97,
        _ => 9973,
    }
}
fn sw_freq_bands(tier: Tier) -> Sweep {
    Sweep::new(all_band_points(band_step(tier)), tier, 256, 48, 64)
}
fn sw_freq_stride(tier: Tier) -> Sweep {
    Sweep::new(stride_points(stride(tier)), tier, 256, 24, 64)
}
fn sw_sync(tier: Tier) -> Sweep {
    Sweep::new(65_536, tier, 256, 64, 16)
}
fn sw_base(tier: Tier) -> Sweep {
    Sweep::new(65_536, tier, 256, 16, 32)
}
fn sw_symb(tier: Tier) -> Sweep {
    Sweep::new(65_536, tier, 64, 64, 16)
}
fn calimg_points() -> u64 {
    all_band_points(10_000) + stride_points(99_730)
}
fn sw_calimg(tier: Tier) -> Sweep {
    Sweep::new(calimg_points(), tier, 256, 8, 32)
}
const PKT_SPACE: u64 = 20 * 8 * 256;
const MOD_SPACE: u64 = 8 * 10 * 4 * 2;
const POWER_SPACE_126: u64 = 4 * 256 * 2 * 3;
const POWER_SPACE_127: u64 = 2 * 2 * 256 * 2;
const EXTREME_POWERS: [i32; 8] = [i32::MIN, i32::MIN + 1, -100_000, -129, 128, 1000, i32::MAX - 1, i32::MAX];

/// Maps case `idx` of a generator with `count` cases onto a space of `space` points (identity
/// when the space is enumerated completely, evenly spaced otherwise).
fn spread(idx: u64, count: u64, space: u64) -> u64 {
    if count >= space {
        idx % space
    } else {
        idx * space / count
    }
}

fn counts(tier: Tier) -> Vec<Gen> {
    let mut v = vec![
        gen("126-modes", tier.pick(4 * 2 * MODE_OPS, 4 * 2 * MODE_OPS, 4 * 2 * MODE_OPS)),
        gen("126-freq-bands", sw_freq_bands(tier).cases),
        gen("126-freq-stride", sw_freq_stride(tier).cases),
        gen("126-mod", tier.pick(MOD_SPACE * 4, MOD_SPACE * 4, 320)),
        gen("126-pkt", tier.pick(PKT_SPACE, PKT_SPACE, 1200)),
        gen("126-sync", sw_sync(tier).cases),
        gen("126-base", sw_base(tier).cases + 1),
        gen("126-fifo", tier.pick(256 * 8 + 1, 256 * 64 + 1, 96)),
        gen("126-power", tier.pick(POWER_SPACE_126, POWER_SPACE_126, 600)),
        gen("126-power-extreme", 4 * EXTREME_POWERS.len() as u64),
        gen("126-symb", sw_symb(tier).cases),
        gen("126-calimg", sw_calimg(tier).cases),
        gen("127-modes", 2 * 15),
        gen("127-freq-bands", sw_freq_bands(tier).cases),
        gen("127-freq-stride", sw_freq_stride(tier).cases),
        gen("127-mod", tier.pick(MOD_SPACE * 4, MOD_SPACE * 4, 320)),
        gen("127-pkt", tier.pick(PKT_SPACE, PKT_SPACE, 1200)),
        gen("127-sync", sw_sync(tier).cases),
        gen("127-fifo", tier.pick(256 * 8, 256 * 64, 96)),
        gen("127-power", tier.pick(POWER_SPACE_127, POWER_SPACE_127, 400)),
        gen("127-irq", 2 * 10),
        gen("127-base", tier.pick(512, 16_384, 8)),
        gen("127-rxflow-symb", sw_symb(tier).cases),
        gen("127-rxflow", tier.pick(2 * 10 * 2 * 2 * 3, 2 * 10 * 2 * 2 * 3, 60)),
        gen("127-txflow", tier.pick(16_384, 262_144, 200)),
        gen("127-cadflow", 2 * 7 * 2),
        gen("127-not-shared", 1),
    ];
    v.retain(|g| g.count > 0);
    v
}

fn npri(tier: Tier, quick: u64, thorough: u64) -> u64 {
    tier.pick(quick, thorough, 1)
}

impl Monitor for C13 {
    fn prop(&self) -> &'static str {
        "C13"
    }
    fn gens(&self, tier: Tier) -> Vec<Gen> {
        counts(tier)
    }
    fn rule(&self) -> String {
        "Each comparison runs one RadioKind operation (or a short TX/RX/CAD start flow on SX127x) of lora-phy and the corresponding SWL2001 call(s) on recording devices primed with the same pseudo-random register contents. SX126x: equality of wire-canonical transcripts (written bytes with trailing NOPs trimmed, bytes clocked per transaction) for SX1261, SX1262, STM32WL-HP, STM32WL-LP. SX127x (SX1276, SX1272): equality of final register file, FIFO stream and IRQ-clear writes. Enumerated: sleep warm/cold, standby, all SF x BW x CR x LDRO (x 16+ prior register files), preamble {0..16,255,256,65535} x header/CRC/IQ x payload length 0..255, all 65536 sync words and buffer base pairs, payload lengths 0..255, power -128..127 (+ extreme i32) x ramp x frequency class, IRQ masks for every radio mode, symbol counts 0..65535, every 100 Hz step of EU433/EU868/IN865/AS923/US915 and a stride over 137-1020 MHz, image calibration over bands and stride. Values one side cannot express or rejects are skipped and counted in skip:* events. Class = (chip, operation, parameter class).".into()
    }
    fn assumptions(&self) -> Vec<String> {
        vec![
            "SX127x prior register contents: registers lora-phy read-modify-writes (RegModemConfig1/2/3, RegDetectionOptimize, RegDioMapping1) and registers no operation governs are random; registers lora-phy writes in full but the reference read-modify-writes (RegPaConfig, RegPaRamp, RegPaDac, reserved bits of RegInvertIQ, RegOpMode) start at the datasheet reset value; RegDioMapping2 starts at 0x00 (the reference's shadow copy)".into(),
            "RegOpMode bit 7 (LongRangeMode) is writable only by a write issued in sleep mode that keeps the chip in sleep (datasheet; same rule as the repository's fixture); SetSleep is compared from every mode except sleep".into(),
            "mirrors applied on the reference side, from the drivers' comments and the repository's comparison tests: SX1276 errata 2.1 (silicon 0x12 only) and 2.3 (>= 62.5 kHz) applied at modulation time, IQ registers written with packet parameters, RegMaxPayloadLength not compared, RegPayloadLength compared only once lora-phy has written it, OCP 100/240 mA written with TX power, RegLna re-asserted at RX/CAD start, IRQ flags cleared once per set_irq_params/do_rx, MaxPower bits not compared under PA_BOOST/SX1272, SX126x sync word compared on writes with registers 0x0740/41 primed to reset values".into(),
            "inverted IQ on SX127x: lora-phy writes RegInvertIQ without knowing the direction; only the bit of the path in use (TX: bit 0, RX: bit 6), the reserved bits and RegInvertIQ2 are compared".into(),
            "RegDioMapping1: DIO0 field compared with the reference, DIO1/DIO3 routing in RX is lora-phy policy (no reference counterpart) and not compared; the other fields must be preserved from the prior contents".into(),
            "RX continuous on SX127x: the symbol time-out field is not compared (unused in that mode; lora-phy zeroes it, the reference leaves it); RX with bandwidth < 62.5 kHz on SX1276: RegIfFreq1/2, AutomaticIFOn and RegFrf not compared (errata 2.3 offset documented as not applied)".into(),
            "SWL2001 has no PA table, IRQ-mask policy or CAD parameters: the reference is fed datasheet table 13-21 anchors (+ 1 dB per SetTxParams step below an anchor, ST's values for STM32WL, both 0x06 and 0x07 accepted as STM32WL-LP +15 dBm duty cycle), datasheet table 9-2 image-calibration bytes, lora-phy's documented IRQ policy (TX: TxDone|Timeout, RX/standby: all, CAD: CadDone|CadDetected) and the CAD settings of the repository test (8 symbols, peak SF+13, min 10, CAD_ONLY); the comparison then decides the command encoding".into(),
            "out-of-range requests the Rust API accepts and documents as clamped (TX power, SX127x symbol time-out < 4 or > 1023) are compared against the reference at the nearest legal value; SX126x symbol counts > 255 against the reference at 255 (its API is 8-bit and saturates at 248)".into(),
            "frequencies inside TX/RX/CAD flows are chosen where truncating and rounding PLL conversions agree; the frequency registers have their own generators".into(),
        ]
    }
    fn required_events(&self, _tier: Tier) -> Vec<&'static str> {
        vec!["compared_sx126x", "compared_sx127x"]
    }

    fn run_case(&self, g: &str, idx: u64, rng: &mut Prng, col: &mut Collector) {
        let tier = col.tier;
        let count = counts(tier).iter().find(|x| x.name == g).map(|x| x.count).unwrap_or(1);
        match g {
            "126-modes" => modes_126(idx, rng, col),
            "126-freq-bands" => {
                for k in sw_freq_bands(tier).range(idx) {
                    let (_, f) = band_point(k, band_step(tier));
                    let chip = CHIPS[(k % 4) as usize];
                    s126::compare(col, chip, false, &Op::Freq(f), &s126::blank_prior(rng));
                }
            }
            "126-freq-stride" => {
                for k in sw_freq_stride(tier).range(idx) {
                    let f = STRIDE_LO + k as u32 * stride(tier);
                    let chip = CHIPS[(k % 4) as usize];
                    s126::compare(col, chip, false, &Op::Freq(f), &s126::blank_prior(rng));
                }
            }
            "126-mod" => {
                let c = spread(idx, count, MOD_SPACE * 4);
                let chip = CHIPS[(c % 4) as usize];
                let c = c / 4;
                let op = Op::Mod { sf: SFS[(c % 8) as usize], bw: BWS[((c / 8) % 10) as usize], cr: CRS[((c / 80) % 4) as usize], ldro: ((c / 320) % 2) as u8 };
                for _ in 0..npri(tier, 16, 64) {
                    s126::compare(col, chip, rng.bool(), &op, &s126::random_prior(rng, false));
                }
            }
            "126-pkt" => {
                let c = spread(idx, count, PKT_SPACE);
                let op = Op::Pkt { len: (c % 256) as u8, implicit: (c / 256) & 1 == 1, crc: (c / 512) & 1 == 1, iq: (c / 1024) & 1 == 1, pre: PREAMBLES[((c / 2048) % 20) as usize] };
                for _ in 0..npri(tier, 8, 32) {
                    let chip = *rng.pick(&CHIPS);
                    s126::compare(col, chip, rng.bool(), &op, &s126::random_prior(rng, false));
                }
            }
            "126-sync" => {
                for w in sw_sync(tier).range(idx) {
                    let chip = *rng.pick(&CHIPS);
                    s126::compare(col, chip, false, &Op::Sync(w as u16), &s126::random_prior(rng, true));
                }
            }
            "126-base" => {
                let sw = sw_base(tier);
                if idx >= sw.cases {
                    for (t, r) in [(256usize, 0usize), (0, 256), (300, 300), (usize::MAX, 0), (0, usize::MAX), (65_536, 1)] {
                        s126::compare(col, *rng.pick(&CHIPS), false, &Op::Base(t, r), &s126::blank_prior(rng));
                    }
                } else {
                    for k in sw.range(idx) {
                        s126::compare(col, CHIPS[(k % 4) as usize], false, &Op::Base((k / 256) as usize, (k % 256) as usize), &s126::blank_prior(rng));
                    }
                }
            }
            "126-fifo" => {
                let len = if tier != Tier::Sanitizer && idx == count - 1 { 256 + rng.below(200) as usize } else { (spread(idx, count, 256) % 256) as usize };
                let payload = rng.bytes(len);
                s126::compare(col, *rng.pick(&CHIPS), false, &Op::Fifo(payload), &s126::blank_prior(rng));
            }
            "126-power" => {
                let c = spread(idx, count, POWER_SPACE_126);
                let chip = CHIPS[(c % 4) as usize];
                let dbm = ((c / 4) % 256) as i32 - 128;
                let prep = (c / 1024) % 2 == 1;
                let freq = match (c / 2048) % 3 {
                    0 => None,
                    1 => Some(rng.range(137_000_000, 399_999_999) as u32),
                    _ => Some(rng.range(400_000_000, 1_020_000_000) as u32),
                };
                let n = if chip.high_power() { npri(tier, 16, 64) } else { 1 };
                for _ in 0..n {
                    s126::compare(col, chip, false, &Op::Power { dbm, freq, prep }, &s126::random_prior(rng, false));
                }
            }
            "126-power-extreme" => {
                let chip = CHIPS[(idx % 4) as usize];
                let dbm = EXTREME_POWERS[((idx / 4) as usize) % EXTREME_POWERS.len()];
                s126::compare(col, chip, false, &Op::Power { dbm, freq: None, prep: rng.bool() }, &s126::random_prior(rng, false));
            }
            "126-symb" => {
                for n in sw_symb(tier).range(idx) {
                    s126::compare(col, *rng.pick(&CHIPS), rng.bool(), &Op::Rx(RxKind::Single(n as u16)), &s126::blank_prior(rng));
                }
            }
            "126-calimg" => {
                let nb = all_band_points(10_000);
                for k in sw_calimg(tier).range(idx) {
                    let f = if k < nb { band_point(k, 10_000).1 } else { STRIDE_LO + (k - nb) as u32 * 99_730 };
                    s126::compare(col, CHIPS[(k % 4) as usize], false, &Op::CalImg(f), &s126::blank_prior(rng));
                }
            }
            "127-modes" => {
                let chip = CHIPS7[(idx % 2) as usize];
                let k = idx / 2;
                let cfg = Cfg { chip, tx_boost: rng.bool(), rx_boost: rng.bool() };
                for _ in 0..npri(tier, 16, 64) {
                    // sleep from modes 1..7, standby from modes 0..7
                    let sc = if k < 7 { s127::sc_mode(cfg, rng, true, (k + 1) as u8) } else { s127::sc_mode(cfg, rng, false, (k - 7) as u8) };
                    s127::compare(col, &sc);
                }
            }
            "127-freq-bands" => {
                for k in sw_freq_bands(tier).range(idx) {
                    let (_, f) = band_point(k, band_step(tier));
                    for chip in CHIPS7 {
                        let sc = s127::sc_freq(Cfg { chip, tx_boost: false, rx_boost: false }, rng, f);
                        s127::compare(col, &sc);
                    }
                }
            }
            "127-freq-stride" => {
                for k in sw_freq_stride(tier).range(idx) {
                    let f = STRIDE_LO + k as u32 * stride(tier);
                    for chip in CHIPS7 {
                        let sc = s127::sc_freq(Cfg { chip, tx_boost: false, rx_boost: false }, rng, f);
                        s127::compare(col, &sc);
                    }
                }
            }
            "127-mod" => {
                let c = spread(idx, count, MOD_SPACE * 4);
                let chip = CHIPS7[(c % 2) as usize];
                let armed = (c / 2) % 2 == 1;
                let c = c / 4;
                let (sf, bw, cr, ldro) = (SFS[(c % 8) as usize], BWS[((c / 8) % 10) as usize], CRS[((c / 80) % 4) as usize], ((c / 320) % 2) as u8);
                let cfg = Cfg { chip, tx_boost: false, rx_boost: false };
                if armed && chip == Chip7::Sx1272 {
                    col.event("skip:sx1272_has_no_version_quirk");
                    return;
                }
                for _ in 0..npri(tier, 16, 64) {
                    let freq = s127::flow_freq(chip, rng, if bw_i(bw) >= 8 { 400_000_000 } else { 0 });
                    let sc = s127::sc_mod(cfg, rng, ModP { sf, bw, cr, ldro, freq }, armed);
                    s127::compare(col, &sc);
                }
            }
            "127-pkt" => {
                let c = spread(idx, count, PKT_SPACE);
                let p = PktP { len: (c % 256) as u8, implicit: (c / 256) & 1 == 1, crc: (c / 512) & 1 == 1, iq: (c / 1024) & 1 == 1, pre: PREAMBLES[((c / 2048) % 20) as usize] };
                for _ in 0..npri(tier, 8, 32) {
                    let cfg = Cfg { chip: *rng.pick(&CHIPS7), tx_boost: rng.bool(), rx_boost: rng.bool() };
                    let from_sleep = rng.bool();
                    let sc = s127::sc_pkt(cfg, rng, p, from_sleep);
                    s127::compare(col, &sc);
                }
            }
            "127-sync" => {
                for w in sw_sync(tier).range(idx) {
                    let cfg = Cfg { chip: *rng.pick(&CHIPS7), tx_boost: false, rx_boost: false };
                    match s127::sc_sync(cfg, rng, w as u16) {
                        Some(sc) => s127::compare(col, &sc),
                        None => col.event("skip:ref_inexpressible:sync_word_not_legacy_form"),
                    }
                }
            }
            "127-fifo" => {
                let len = (spread(idx, count, 256) % 256) as usize;
                let payload = rng.bytes(len);
                let cfg = Cfg { chip: *rng.pick(&CHIPS7), tx_boost: rng.bool(), rx_boost: rng.bool() };
                let p = PktP { pre: *rng.pick(&PREAMBLES), implicit: rng.bool(), len: 0, crc: rng.bool(), iq: rng.bool() };
                let sc = s127::sc_fifo(cfg, rng, p, payload);
                s127::compare(col, &sc);
            }
            "127-power" => {
                let c = spread(idx, count, POWER_SPACE_127);
                let cfg = Cfg { chip: CHIPS7[(c % 2) as usize], tx_boost: (c / 2) % 2 == 1, rx_boost: false };
                let dbm = ((c / 4) % 256) as i32 - 128;
                let prep = (c / 1024) % 2 == 1;
                for _ in 0..npri(tier, 2, 8) {
                    match s127::sc_power(cfg, rng, dbm, prep) {
                        Ok(sc) => s127::compare(col, &sc),
                        Err(why) => col.event(why),
                    }
                }
            }
            "127-base" => {
                // FIFO base addresses with free values (the reference driver only ever writes 0 / 0 in its
                // composite calls; its register access mirrors the data sheet's RegFifoTxBaseAddr 0x0E /
                // RegFifoRxBaseAddr 0x0F)
                let cfg = Cfg { chip: CHIPS7[(idx % 2) as usize], tx_boost: false, rx_boost: false };
                let (t, r) = match (idx / 2) % 4 {
                    0 => (rng.below(256) as usize, rng.below(256) as usize),
                    1 => (0x80, 0x00),
                    2 => (0x00, 1 + rng.below(255) as usize),
                    _ => (1 + rng.below(255) as usize, 0x00),
                };
                let sc = s127::sc_base(cfg, rng, t, r);
                s127::compare(col, &sc);
            }
            "127-irq" => {
                let cfg = Cfg { chip: CHIPS7[(idx % 2) as usize], tx_boost: false, rx_boost: false };
                let m = IRQ_MODES[((idx / 2) % 10) as usize];
                for _ in 0..npri(tier, 16, 64) {
                    let sc = s127::sc_irq(cfg, rng, m);
                    s127::compare(col, &sc);
                }
            }
            "127-rxflow-symb" => {
                for n in sw_symb(tier).range(idx) {
                    let chip = *rng.pick(&CHIPS7);
                    let boost = rng.bool();
                    rxflow(col, rng, chip, None, None, boost, RxKind::Single(n as u16));
                }
            }
            "127-rxflow" => {
                let c = spread(idx, count, 2 * 10 * 2 * 2 * 3);
                let chip = CHIPS7[(c % 2) as usize];
                let bw = BWS[((c / 2) % 10) as usize];
                let iq = (c / 20) % 2 == 1;
                let boost = (c / 40) % 2 == 1;
                let kind = match (c / 80) % 3 {
                    0 => RxKind::Continuous,
                    1 => RxKind::Single(rng.range(4, 1023) as u16),
                    _ => RxKind::Duty(640, 6400),
                };
                if !chip.supports_bw(bw) {
                    col.event("skip:rust_rejects:bandwidth_unsupported_by_part");
                    return;
                }
                for _ in 0..npri(tier, 16, 64) {
                    rxflow(col, rng, chip, Some(bw), Some(iq), boost, kind);
                }
            }
            "127-txflow" => {
                let cfg = Cfg { chip: CHIPS7[(idx % 2) as usize], tx_boost: rng.bool(), rx_boost: rng.bool() };
                let flags = (idx / 2) % 8;
                let from_sleep = (idx / 16) % 2 == 1;
                let len = match (idx / 32) % 4 {
                    0 => (idx / 128) % 256,
                    _ => rng.below(256),
                } as usize;
                let p = PktP { pre: *rng.pick(&PREAMBLES), implicit: flags & 1 == 1, len: 0, crc: flags & 2 == 2, iq: flags & 4 == 4 };
                let payload = rng.bytes(len);
                let sc = s127::sc_txflow(cfg, rng, p, payload, from_sleep);
                s127::compare(col, &sc);
            }
            "127-cadflow" => {
                let chip = CHIPS7[(idx % 2) as usize];
                let sf = SFS[1 + ((idx / 2) % 7) as usize];
                let cfg = Cfg { chip, tx_boost: false, rx_boost: (idx / 14) % 2 == 1 };
                for _ in 0..npri(tier, 16, 64) {
                    let m = ModP { sf, bw: BWS[7], cr: CRS[0], ldro: 0, freq: s127::flow_freq(chip, rng, 0) };
                    let sc = s127::sc_cadflow(cfg, rng, m);
                    s127::compare(col, &sc);
                }
            }
            "127-not-shared" => {
                // Operations of the statement's list that one SX127x driver does not have as
                // such: nothing is compared, the omission is counted.
                col.event_n("skip:ref_inexpressible:sx127x_base_address_other_than_0_0", 65_535);
                col.event("skip:not_shared:sx127x_image_calibration_is_a_no_op_in_lora_phy");
                col.event("skip:not_shared:sx127x_warm_sleep_does_not_exist");
            }
            _ => unreachable!("unknown generator {}", g),
        }
    }
}

fn modes_126(idx: u64, rng: &mut Prng, col: &mut Collector) {
    let chip = CHIPS[(idx % 4) as usize];
    let boost = (idx / 4) % 2 == 1;
    let k = (idx / 8) % MODE_OPS;
    let op = match k {
        0 => Op::Sleep { warm: true },
        1 => Op::Sleep { warm: false },
        2 => Op::Standby,
        3 => Op::Tx,
        4 => Op::ClearIrq,
        5..=14 => Op::Irq(IRQ_MODES[(k - 5) as usize]),
        15 => Op::Rx(RxKind::Continuous),
        16 => Op::Rx(RxKind::Duty(rng.below(1 << 24) as u32, rng.below(1 << 24) as u32)),
        _ => Op::Cad(SFS[(k - 17) as usize]),
    };
    s126::compare(col, chip, boost, &op, &s126::random_prior(rng, false));
}

#[allow(clippy::too_many_arguments)]
fn rxflow(col: &mut Collector, rng: &mut Prng, chip: Chip7, bw: Option<lora_modulation::Bandwidth>, iq: Option<bool>, boost: bool, kind: RxKind) {
    let bw = bw.unwrap_or_else(|| loop {
        let b = *rng.pick(&BWS);
        if chip.supports_bw(b) {
            break b;
        }
    });
    let sf = SFS[1 + rng.below(7) as usize];
    let implicit = if sf_n(sf) == 6 { true } else { rng.bool() };
    let m = ModP { sf, bw, cr: *rng.pick(&CRS), ldro: rng.below(2) as u8, freq: s127::flow_freq(chip, rng, if bw_i(bw) >= 8 { 400_000_000 } else { 0 }) };
    let p = PktP { pre: *rng.pick(&PREAMBLES), implicit, len: rng.u8(), crc: rng.bool(), iq: iq.unwrap_or_else(|| rng.bool()) };
    let cfg = Cfg { chip, tx_boost: rng.bool(), rx_boost: boost };
    let sc = s127::sc_rxflow(cfg, rng, m, p, kind);
    s127::compare(col, &sc);
}
