//! lrv-phyref: differential monitor of lora-phy's SX126x/SX127x drivers against Semtech's
//! reference C driver SWL2001 (through smtc-modem-cores) — property C13.
mod c13;
mod exec;
mod fix126;
mod fix127;
mod params;
mod s126;
mod s127;

fn main() {
    lrv_core::runner::main(&[&c13::C13]);
}
