//! C12 — uplink header bits and ADR back-off follow the session history.
//! Step-by-step executable reference model of the statement.

use crate::net::*;
use crate::regions::{self, Reg};
use crate::sim::*;
use lrv_core::*;

pub struct C12;

impl Monitor for C12 {
    fn prop(&self) -> &'static str {
        "C12"
    }
    fn scalable(&self, g: &str) -> bool {
        let _ = g;
        true
    }
    fn gens(&self, tier: Tier) -> Vec<Gen> {
        vec![gen("histories", tier.pick(3_000, 400_000, 2)), gen("mask-limited", tier.pick(240, 12_000, 1))]
    }
    fn rule(&self) -> String {
        "histories of 100-600 uplinks per (region, front-end) with accepted/rejected/confirmed downlinks (RX1, RX2, Class C) placed around n = 63/64/65/95/96/97/127/128 uplinks since the last accepted downlink, ADR toggles and application data-rate overrides; every uplink is decoded by the reference codec and compared with a step-by-step model of the statement (DevAddr, MType, ACK, ADR, ADRACKReq, data rate). mask-limited: US915/AU915 devices commanded (LinkADRReq, ChMaskCntl 7) onto the 500 kHz rate with every 125 kHz channel off, then 70-140 unanswered uplinks: the back-off must never move the device to a rate that has no enabled channel (every uplink goes out, at the 500 kHz rate, on an enabled channel). Class = (region, n-class at event, event kind, rate).".into()
    }
    fn assumptions(&self) -> Vec<String> {
        vec![
            "n = uplinks completed since the last accepted downlink; ADRACKReq is expected from the uplink sent with n >= 64, the rate steps after the uplink that makes n = 96, 128, ...".into(),
            "comparison of the n-dependent bits (ADRACKReq, back-off) is suspended from an ADR toggle until the next accepted downlink (the statement does not define the counter across toggles)".into(),
            "'a lower data rate exists' = a lower LoRa uplink rate of the region that the crate implements (set_datarate is only called with uplink rates the region defines)".into(),
            "mask-limited: whether a lower rate 'exists' when the channel mask enables no channel for it is left open by the statement, so ADRACKReq is not compared there; only the rate and the channel are".into(),
            "after a downlink carrying LinkADRReq the model's rate is re-read from the device (correctness of that step is C08's)".into(),
        ]
    }
    fn required_events(&self, tier: Tier) -> Vec<&'static str> {
        if tier == Tier::Sanitizer {
            vec!["uplinks_checked"]
        } else {
            vec!["uplinks_checked", "adrackreq_expected", "backoff_step_expected", "ack_expected", "accepted_downlink", "rejected_downlink", "adr_toggle", "at_lowest_rate_with_n_ge_64", "classc_downlink", "two_classc_downlinks", "mask_limited_uplinks", "adr_set_again", "classc_then_classa_downlink", "radio_faults", "port0_empty_uplinks", "lazy_application_histories", "reactivated_by_personalisation", "one_subband_uplinks", "one_subband_backoff_steps"]
        }
    }

    fn run_case(&self, g: &str, idx: u64, rng: &mut Prng, col: &mut Collector) {
        let front = FRONTS[(idx % 3) as usize];
        if g == "mask-limited" {
            let reg = if (idx / 3) % 2 == 0 { Reg::US915 } else { Reg::AU915 };
            mask_limited(front, reg, rng, col);
            return;
        }
        let reg = regions::ALL[((idx / 3) % 9) as usize];
        history(front, reg, rng, col);
    }
}

/// Fixed plan, 500 kHz uplink rate, no 125 kHz channel enabled: ADR back-off has nowhere to go.
/// A device at the 500 kHz uplink rate whose mask keeps one sub-band (its eight 125 kHz channels and
/// its 500 kHz channel, ChMaskCntl 5): a lower rate exists and is usable, so ADRACKReq appears after
/// 64 unanswered uplinks and the rate steps down at 96 and 128 - whichever sub-band it is.
fn one_subband(front: Front, reg: Reg, rng: &mut Prng, col: &mut Collector) {
    let opts = DevOpts { rng_seed: Some(rng.next_u64()), ..Default::default() };
    let Ok((mut dev, net)): Result<(Dev, Net), _> = abp_dev(front, reg, rng, &opts, |_| {}) else {
        col.event("harness_session_json_rejected");
        return;
    };
    let dr500 = if reg == Reg::US915 { 4u8 } else { 6u8 };
    let sb = rng.below(8) as u32;
    dev.set_datarate(*rng.pick(&uplink_drs(reg)));
    let cmd = link_adr_req(dr500, 0xF, 1 << sb, 5, 1);
    let f = net.mac_downlink(1, &cmd, rng.bool());
    let script = if rng.bool() { Script::rx1(f) } else { Script::rx2(f) };
    let r = dev.transact(Action::Send { data: &[1], port: 3, confirmed: false }, &script);
    if let Resp::Panic(m, l) = &r {
        col.violation(&format!("C12|panic|{}|{}", reg.name(), short_loc(l)), "device panicked during an ADR history", json!({"msg": m, "loc": l, "phase": "one-subband setup"}));
        return;
    }
    let snap = dev.snapshot();
    let m = &snap.region.channel_mask;
    let state_ok = (0..8).all(|b| m[b] == if b as u32 == sb { 0xFF } else { 0 }) && m[8] == 1 << sb && snap.data_rate == dr500;
    if !state_ok {
        col.event("one_subband_state_not_reached");
        return;
    }
    let total = rng.range(100, 141) as usize;
    let mut up_min = 1u32;
    let mut n = 0u32;
    let mut dr = dr500;
    for step in 0..total {
        let ev0 = dev.ev_len();
        let resp = dev.transact(Action::Send { data: &[step as u8], port: 3, confirmed: false }, &Script::silent());
        let ctx = |what: &str| json!({"what": what, "front": front.name(), "region": reg.name(), "unanswered_uplinks_before": n, "sub_band": sb + 1, "model_dr": dr, "resp": format!("{:?}", resp)});
        if let Resp::Panic(m, l) = &resp {
            col.violation(&format!("C12|one-subband|panic|{}|{}", reg.name(), n_class(n)), "device panicked or did not return during an unanswered run", json!({"msg": m, "loc": l, "ctx": ctx("panic")}));
            return;
        }
        let txs = dev.tx_since(ev0);
        let Some(Ev::Tx { bytes, sf, bw, freq, .. }) = txs.first().cloned() else {
            col.violation(&format!("C12|one-subband|no-uplink|{}|{}", reg.name(), n_class(n)), "send did not hand a frame to the radio", ctx("no-uplink"));
            return;
        };
        col.event("one_subband_uplinks");
        col.eval(&format!("one-subband|{}|sb{}|{}|{}", reg.name(), sb + 1, n_class(n), front.name()));
        let Some(u) = net.decode_uplink(&bytes, up_min) else {
            col.violation(&format!("C12|undecodable-uplink|{}", front.name()), "uplink does not decode under the session keys/address", json!({"frame": hex(&bytes)}));
            return;
        };
        up_min = u.fcnt + 1;
        let exp_req = n >= 64 && next_lower(reg, dr).is_some();
        if u.view.adr_ack_req() != exp_req {
            col.violation(&format!("C12|one-subband|adrackreq|expected={}|n={}|{}|sb{}", exp_req, n_class(n), reg.name(), sb + 1), "ADRACKReq differs from the model although a lower rate is usable on the enabled sub-band", ctx("adrackreq"));
            return;
        }
        if Some((sf, bw)) != reg.lora_dr(dr) {
            col.violation(&format!("C12|one-subband|rate|{}|n={}|model=dr{}|got=sf{}bw{}|sb{}", reg.name(), n_class(n), dr, sf, bw / 1000, sb + 1), "uplink data rate differs from the model (back-off step missing, extra or to the wrong rate)", ctx("rate"));
            return;
        }
        let want_500 = bw == 500_000;
        match reg.fixed_channel_of(freq) {
            Some(k) if (want_500 && k == 64 + sb) || (!want_500 && k / 8 == sb) => {}
            other => {
                col.violation(&format!("C12|one-subband|channel|{}|{}", reg.name(), n_class(n)), "uplink on a channel the mask does not enable (or of the wrong bandwidth)", json!({"channel": other, "freq": freq, "ctx": ctx("channel")}));
                return;
            }
        }
        n += 1;
        if n >= 96 && (n - 64) % 32 == 0 {
            if let Some(l) = next_lower(reg, dr) {
                dr = l;
                col.event("one_subband_backoff_steps");
            }
        }
    }
}

fn mask_limited(front: Front, reg: Reg, rng: &mut Prng, col: &mut Collector) {
    if rng.bool() {
        return one_subband(front, reg, rng, col);
    }
    let opts = DevOpts { rng_seed: Some(rng.next_u64()), ..Default::default() };
    let Ok((mut dev, net)): Result<(Dev, Net), _> = abp_dev(front, reg, rng, &opts, |_| {}) else {
        col.event("harness_session_json_rejected");
        return;
    };
    let dr500 = if reg == Reg::US915 { 4u8 } else { 6u8 };
    let mask = (rng.range(1, 256) as u16) & 0x00ff;
    let start_dr = *rng.pick(&uplink_drs(reg));
    dev.set_datarate(start_dr);
    // the command either names the 500 kHz rate or keeps the current one (0xF) when already there
    let cmd_dr = if start_dr == dr500 && rng.bool() { 0xF } else { dr500 };
    let cmd = link_adr_req(cmd_dr, 0xF, mask, 7, 1);
    let mut script = Script::default();
    let f = net.mac_downlink(1, &cmd, rng.bool());
    if rng.bool() {
        script.rx1.push(f);
    } else {
        script.rx2.push(f);
    }
    let r = dev.transact(Action::Send { data: &[1], port: 3, confirmed: false }, &script);
    if let Resp::Panic(m, l) = &r {
        col.violation(&format!("C12|panic|{}|{}", reg.name(), short_loc(l)), "device panicked during an ADR history", json!({"msg": m, "loc": l, "phase": "mask-limited setup"}));
        return;
    }
    let snap = dev.snapshot();
    let only500 = snap.region.channel_mask[..8].iter().all(|b| *b == 0) && snap.region.channel_mask[8] == mask as u8;
    if !only500 || snap.data_rate != dr500 {
        // the command was not taken: not the state this generator is about (C08 judges that)
        col.event("mask_limited_state_not_reached");
        return;
    }
    let total = rng.range(70, 141) as usize;
    let mut up_min = 1u32;
    for step in 0..total {
        let ev0 = dev.ev_len();
        let resp = dev.transact(Action::Send { data: &[step as u8], port: 3, confirmed: false }, &Script::silent());
        let ctx = |what: &str| json!({"what": what, "front": front.name(), "region": reg.name(), "unanswered_uplinks": step + 1, "mask_500k": mask, "start_dr": start_dr, "resp": format!("{:?}", resp)});
        if let Resp::Panic(m, l) = &resp {
            let kind = if m.contains("rng-budget") || m.contains("poll-budget") { "send-does-not-return" } else { "panic" };
            col.violation(&format!("C12|mask-limited|{}|{}|{}", kind, reg.name(), n_class(step as u32 + 1)), "with no 125 kHz channel enabled the device left the 500 kHz rate on its own (or panicked): the uplink can not be sent", json!({"msg": m, "loc": l, "ctx": ctx("panic")}));
            return;
        }
        let txs = dev.tx_since(ev0);
        let Some(Ev::Tx { bytes, sf, bw, freq, .. }) = txs.first().cloned() else {
            col.violation(&format!("C12|mask-limited|no-uplink|{}|{}", reg.name(), n_class(step as u32 + 1)), "send did not hand a frame to the radio", ctx("no-uplink"));
            return;
        };
        col.event("mask_limited_uplinks");
        col.eval(&format!("mask-limited|{}|{}|{}", reg.name(), n_class(step as u32 + 1), front.name()));
        if Some((sf, bw)) != reg.lora_dr(dr500) {
            col.violation(&format!("C12|mask-limited|rate|{}|{}|got=sf{}bw{}", reg.name(), n_class(step as u32 + 1), sf, bw / 1000), "the data rate changed on its own to a rate for which no channel is enabled", ctx("rate"));
            return;
        }
        match reg.fixed_channel_of(freq) {
            Some(k) if k >= 64 && mask & (1 << (k - 64)) != 0 => {}
            other => {
                col.violation(&format!("C12|mask-limited|channel|{}|{}", reg.name(), n_class(step as u32 + 1)), "uplink on a channel the mask does not enable", json!({"channel": other, "freq": freq, "ctx": ctx("channel")}));
                return;
            }
        }
        if let Some(u) = net.decode_uplink(&bytes, up_min) {
            up_min = u.fcnt + 1;
            if !u.view.adr() {
                col.violation("C12|adr-bit|expected=true", "ADR bit differs from the ADR setting", ctx("adr"));
            }
        } else {
            col.violation(&format!("C12|undecodable-uplink|{}", front.name()), "uplink does not decode under the session keys/address", json!({"frame": hex(&bytes)}));
            return;
        }
    }
}

/// Uplink data rates an application may select (LoRa uplink rates the crate implements).
pub fn uplink_drs(reg: Reg) -> Vec<u8> {
    match reg {
        Reg::US915 => vec![0, 1, 2, 3, 4],
        Reg::AU915 => vec![0, 1, 2, 3, 4, 5, 6],
        r if r.is_as923() => vec![0, 1, 2, 3, 4, 5, 6],
        _ => vec![0, 1, 2, 3, 4, 5],
    }
}

/// LoRa rates the region defines at all: in the fixed plans also the 500 kHz rates DR8..DR13 (defined for
/// downlinks; a device accepts them from `set_datarate` / LinkADRReq and then sends on the 500 kHz channels).
fn defined_drs(reg: Reg) -> Vec<u8> {
    let mut v = uplink_drs(reg);
    if reg.fixed() {
        v.extend(8..=13u8);
    }
    v
}

fn next_lower(reg: Reg, dr: u8) -> Option<u8> {
    defined_drs(reg).into_iter().filter(|d| *d < dr).max()
}

fn n_class(n: u32) -> &'static str {
    match n {
        0 => "0",
        1..=62 => "<63",
        63..=65 => "~64",
        66..=94 => "65-94",
        95..=97 => "~96",
        98..=126 => "98-126",
        127..=129 => "~128",
        _ => ">129",
    }
}

fn history(front: Front, reg: Reg, rng: &mut Prng, col: &mut Collector) {
    let opts = DevOpts { rng_seed: Some(rng.next_u64()), ..Default::default() };
    let Ok((mut dev, mut net)): Result<(Dev, Net), _> = abp_dev(front, reg, rng, &opts, |_| {}) else {
        col.event("harness_session_json_rejected");
        return;
    };
    let mut drs = uplink_drs(reg);
    // fixed plans, one history in six: the application (or the network before) has put the device on one of
    // the rates above the gap in the plan's table (DR8..DR13): the next lower defined rate is below the gap
    if reg.fixed() && rng.chance(1, 6) {
        drs = (8..=13u8).collect();
        col.event("histories_above_the_rate_gap");
    }
    let dr0 = *rng.pick(&drs);
    dev.set_datarate(dr0);
    let mut adr = true;
    // model states (n, dr): normally one; two while the statement leaves n open by one
    // (after a Class C downlink accepted between an uplink and its own receive windows)
    let mut models: Vec<(u32, u8)> = vec![(0, dr0)];
    let mut ack_owed = false;
    let mut suspended = false;
    let mut fcnt_down: u32 = 0;
    let mut up_min: u32 = 0;
    let total = col.tier.pick(100 + rng.below(500), 100 + rng.below(500), 70) as usize;
    // downlinks are planned at target values of n
    let targets = [63u32, 64, 65, 66, 95, 96, 97, 98, 127, 128, 129, 160, 161, 5, 1, 200, 225, 257, 300];
    let mut next_target = *rng.pick(&targets);
    let mut recent: Vec<String> = vec![];
    let lazy_app = rng.chance(1, 4);
    if lazy_app {
        col.event("lazy_application_histories");
    }
    for step in 0..total {
        // application-level events
        if rng.chance(1, 300) {
            adr = !adr;
            dev.set_adr(adr);
            suspended = true;
            col.event("adr_toggle");
            recent.push(format!("set_adr({})", adr));
        }
        if rng.chance(1, 250) {
            // the application activates the device again by personalisation, with the same keys and
            // (two times out of three) another address: a new session, whose uplinks carry its address
            if rng.chance(2, 3) {
                net.addr = net.addr.wrapping_add(1 + rng.below(1000) as u32);
            }
            dev.join_abp(net.nwk, net.app, net.addr);
            let d = dev.snapshot().data_rate;
            models = vec![(0, d)];
            ack_owed = false;
            suspended = false;
            fcnt_down = 0;
            up_min = 0;
            col.event("reactivated_by_personalisation");
            recent.push(format!("join(ABP) addr={:08x}", net.addr));
        }
        if adr && rng.chance(1, 60) {
            // switching ADR on while it is on changes nothing: the count goes on
            dev.set_adr(true);
            col.event("adr_set_again");
            recent.push("set_adr(true) while on".into());
        }
        if rng.chance(1, 120) {
            let d = *rng.pick(&drs);
            dev.set_datarate(d);
            for m in models.iter_mut() {
                m.1 = d;
            }
            models.dedup();
            recent.push(format!("set_datarate({})", d));
        }
        let (n, dr) = models[0];
        let confirmed = rng.chance(1, 6);
        // downlink plan for this transaction
        let mut script = Script::default();
        let mut plan = "none";
        let mut accepted = false;
        let mut dl_confirmed = false;
        let mut classc = false;
        let mut two_classc = false;
        if n == next_target || rng.chance(1, 150) || (suspended && rng.chance(1, 6)) {
            next_target = *rng.pick(&targets);
            let mut kind = rng.below(7);
            // (kind 6: an authentic, fresh downlink that is far too long for the RX2 rate of the plan - it is
            // not accepted, so nothing restarts and nothing is owed; only where the plan's default RX2 rate
            // makes 200 octets clearly too many)
            if kind == 6 {
                let (sf, bw) = reg.lora_dr(reg.rx2_default().1).unwrap_or((7, 125_000));
                if !((bw == 125_000 && sf >= 9) || (bw == 500_000 && sf >= 11)) {
                    kind = 4;
                }
            }
            dl_confirmed = rng.chance(1, 3);
            // one accepted downlink in three commands a transmit power (LinkADRReq, rate and mask kept): the
            // connectivity count and the rate steps at 96, 128, ... are what they are without it
            let power_cmd: Vec<u8> = if rng.chance(1, 3) {
                let p = rng.range(1, 6) as u8;
                col.event("linkadr_power_downlinks");
                if reg.fixed() { link_adr_req(15, p, 0x00FF, 6, 1) } else { link_adr_req(15, p, (1u16 << reg.default_channels().len()) - 1, 0, 1) }
            } else {
                vec![]
            };
            let f = net.downlink(&Down { fcnt: fcnt_down + 1, confirmed: dl_confirmed, f_opts: &power_cmd, port: if rng.bool() { Some(9) } else { None }, payload: &[], ..Default::default() });
            match kind {
                0 | 1 => {
                    script.rx1.push(f);
                    plan = "rx1";
                    accepted = true;
                }
                2 => {
                    script.rx2.push(f);
                    plan = "rx2";
                    accepted = true;
                }
                3 => {
                    if front == Front::AsyncC {
                        script.pre_rx1.push(f);
                        plan = "classC";
                        accepted = true;
                        classc = true;
                        match rng.below(3) {
                            0 => {
                                // a second accepted downlink before the next uplink: the ACK owed for
                                // a confirmed one must survive a later unconfirmed one
                                let f2 = net.downlink(&Down { fcnt: fcnt_down + 2, confirmed: !dl_confirmed, port: Some(9), payload: &[], ..Default::default() });
                                script.between.push(f2);
                                two_classc = true;
                                col.event("two_classc_downlinks");
                            }
                            1 => {
                                // ... or the second one arrives in a receive window of the same uplink
                                // (Class A): same obligation, and the count restarts for certain
                                let f2 = net.downlink(&Down { fcnt: fcnt_down + 2, confirmed: !dl_confirmed, port: Some(9), payload: &[], ..Default::default() });
                                if rng.bool() {
                                    script.rx1.push(f2);
                                } else {
                                    script.rx2.push(f2);
                                }
                                two_classc = true;
                                classc = false;
                                plan = "classC+classA";
                                col.event("classc_then_classa_downlink");
                            }
                            _ => {}
                        }
                    }
                }
                4 => {
                    let mut b = f;
                    let l = b.len();
                    b[l - 2] ^= 0x10;
                    script.rx1.push(b);
                    plan = "bad-mic";
                }
                6 => {
                    let long = vec![0x3Cu8; 200];
                    let b = net.downlink(&Down { fcnt: fcnt_down + 1, confirmed: dl_confirmed, port: Some(9), payload: &long, ..Default::default() });
                    script.rx2.push(b);
                    plan = "oversize-authentic";
                    col.event("authentic_oversized_downlinks");
                }
                _ => {
                    // replay of an old counter (only meaningful once something was accepted)
                    let b = net.downlink(&Down { fcnt: fcnt_down, confirmed: true, ..Default::default() });
                    if fcnt_down > 0 {
                        script.rx2.push(b);
                        plan = "replay";
                    }
                }
            }
            if accepted {
                fcnt_down += 1;
            }
            if two_classc {
                fcnt_down += 1;
            }
        }
        let ev0 = dev.ev_len();
        // now and then the radio fails during an uplink nobody answers (at the transmission itself, or
        // while a window is set up or listened in); the application carries on with its next send
        if plan == "none" && rng.chance(1, 40) {
            let base = dev.log.borrow().radio_calls;
            // (up to the call that closes RX2: the state-machine front-end makes five radio calls per
            // unanswered uplink, the async one six)
            dev.log.borrow_mut().fault_at = Some(base + rng.below(7) as usize);
        }
        // now and then the application first tries a payload no frame can hold (250 octets): the call is
        // refused, nothing goes on the air, and nothing of the session's header state (an owed ACK, the
        // connectivity count) is used up by it
        if rng.chance(1, 25) {
            let too_long = vec![0x77u8; 250];
            let ev1 = dev.ev_len();
            let r = dev.transact(Action::Send { data: &too_long, port: 4, confirmed: rng.bool() }, &Script::silent());
            if let Resp::Panic(m, l) = &r {
                col.violation(&format!("C12|panic|{}|{}", reg.name(), short_loc(l)), "device panicked during an ADR history", json!({"msg": m, "loc": l, "recent": recent}));
                return;
            }
            if dev.tx_since(ev1).is_empty() {
                col.event("refused_overlong_sends");
                recent.push("send(250 octets) refused".into());
            } else {
                // (a stack that sends it after all has made an uplink the model knows nothing about)
                col.event("overlong_send_went_out");
                return;
            }
        }
        // one uplink in eight is a MAC-only one: FPort 0 without payload
        let (data, port): (Vec<u8>, u8) = if rng.chance(1, 8) { (vec![], 0) } else { (vec![step as u8], 3) };
        if port == 0 {
            col.event("port0_empty_uplinks");
        }
        let resp = dev.transact(Action::Send { data: &data, port, confirmed }, &script);
        dev.log.borrow_mut().fault_at = None;
        let fault: Option<&'static str> = dev.evs_since(ev0).iter().find_map(|e| if let Ev::Fault(k) = e { Some(*k) } else { None });
        if let Some(k) = fault {
            col.event("radio_faults");
            recent.push(format!("radio fault at {}", k));
        }
        if let Resp::Panic(m, l) = &resp {
            col.violation(&format!("C12|panic|{}|{}", reg.name(), short_loc(l)), "device panicked during an ADR history", json!({"msg": m, "loc": l, "recent": recent}));
            return;
        }
        let txs = dev.tx_since(ev0);
        let Some(Ev::Tx { bytes, sf, bw, .. }) = txs.first().cloned() else {
            col.violation(&format!("C12|no-uplink|{}|{}", front.name(), resp.kind()), "send did not hand a frame to the radio", json!({"resp": format!("{:?}", resp), "recent": recent}));
            return;
        };
        let Some(u) = net.decode_uplink(&bytes, up_min) else {
            col.violation(&format!("C12|undecodable-uplink|{}", front.name()), "uplink does not decode under the session keys/address", json!({"frame": hex(&bytes), "recent": recent}));
            return;
        };
        up_min = u.fcnt + 1;
        col.event("uplinks_checked");
        // ---- expectations ---------------------------------------------------------------------
        let lower = next_lower(reg, dr).is_some();
        let exp_adrackreq = adr && n >= 64 && lower;
        let any_model = |f: &dyn Fn(u32, u8) -> bool| models.iter().any(|m| f(m.0, m.1));
        if adr && n >= 64 && !lower {
            col.event("at_lowest_rate_with_n_ge_64");
        }
        if exp_adrackreq && !suspended {
            col.event("adrackreq_expected");
        }
        if ack_owed {
            col.event("ack_expected");
        }
        let v = &u.view;
        let exp_rate = reg.lora_dr(dr);
        col.eval(&format!("{}|{}|{}|dr{}|{}", reg.name(), n_class(n), plan, dr, if suspended { "susp" } else { "live" }));
        let ctx = |what: &str| json!({"what": what, "front": front.name(), "region": reg.name(), "step": step, "n": n, "adr": adr, "model_dr": dr, "ack_owed": ack_owed, "suspended": suspended, "uplink": hex(&bytes), "tx_sf": sf, "tx_bw": bw, "recent": recent});
        if v.dev_addr != net.addr {
            col.violation("C12|devaddr", "uplink carries another device address", ctx("devaddr"));
        }
        if v.confirmed() != confirmed {
            col.violation(&format!("C12|mtype|requested={}", confirmed), "message type differs from the application's request", ctx("mtype"));
        }
        if v.ack() != ack_owed {
            col.violation(&format!("C12|ack|expected={}|{}", ack_owed, front.name()), "ACK bit does not follow accepted confirmed downlinks", ctx("ack"));
        }
        if v.adr() != adr {
            col.violation(&format!("C12|adr-bit|expected={}", adr), "ADR bit differs from the ADR setting", ctx("adr"));
        }
        if !suspended {
            let got_req = v.adr_ack_req();
            if !any_model(&|n, d| got_req == (adr && n >= 64 && next_lower(reg, d).is_some())) {
                col.violation(&format!("C12|adrackreq|expected={}|n={}|lower={}|{}", exp_adrackreq, n_class(n), lower, reg.name()), "ADRACKReq bit differs from the model", ctx("adrackreq"));
            }
            let _ = exp_rate;
            if !any_model(&|_, d| Some((sf, bw)) == reg.lora_dr(d)) {
                col.violation(&format!("C12|rate|{}|n={}|model=dr{}|got=sf{}bw{}", reg.name(), n_class(n), dr, sf, bw / 1000), "uplink data rate differs from the model (back-off step missing, extra or to the wrong rate)", ctx("rate"));
                // resynchronise to avoid cascades
                let d = dev.snapshot().data_rate;
                for m in models.iter_mut() {
                    m.1 = d;
                }
            }
        } else if !adr && v.adr_ack_req() {
            col.violation("C12|adrackreq|set-while-adr-off", "ADRACKReq set while ADR is disabled", ctx("adrackreq-off"));
        }
        let dl_ctx = ctx("dl");
        ack_owed = false;
        // ---- advance the model ------------------------------------------------------------------
        let got_accept = matches!(resp, Resp::DownlinkReceived(_));
        if accepted && !classc && !got_accept {
            col.violation(&format!("C12|planned-downlink-not-accepted|{}|{}", plan, front.name()), "an authentic fresh downlink was not accepted (C05 overlap)", dl_ctx);
        }
        if accepted {
            col.event("accepted_downlink");
            suspended = false;
            if dl_confirmed || two_classc {
                // (with two Class C downlinks exactly one of them was confirmed)
                ack_owed = true;
            }
            let d = dev.snapshot().data_rate; // unchanged by a downlink without MAC commands
            if classc {
                col.event("classc_downlink");
                // the uplink's own windows then timed out: whether that uplink counts as
                // "passed without an accepted downlink" is open by one
                models = vec![(1, d), (0, d)];
            } else {
                models = vec![(0, d)];
            }
        } else {
            if plan != "none" {
                col.event("rejected_downlink");
            }
            let mut stepped = false;
            // an uplink whose transmission itself failed may or may not count as 'passed'; one that
            // went out and lost its windows to a radio error has passed without a downlink
            let uncounted: Vec<(u32, u8)> = if matches!(fault, Some("tx")) || matches!(fault, Some("phy")) { models.clone() } else { vec![] };
            for m in models.iter_mut() {
                m.0 = m.0.saturating_add(1);
                if adr && !suspended && m.0 >= 96 && (m.0 - 64) % 32 == 0 {
                    if let Some(l) = next_lower(reg, m.1) {
                        m.1 = l;
                        stepped = true;
                    }
                }
            }
            if stepped {
                col.event("backoff_step_expected");
            }
            for m in uncounted {
                if !models.contains(&m) {
                    models.push(m);
                }
            }
        }
        if suspended {
            let d = dev.snapshot().data_rate;
            models = vec![(models[0].0, d)];
        }
        // one application in four never collects its downlinks (the queue fills up; that must not
        // change which downlinks count as accepted)
        if !lazy_app {
            let _ = dev.take_downlinks();
        }
        recent.push(format!("up#{} n={} {} -> {}", step, n, plan, resp.kind()));
        if recent.len() > 10 {
            recent.remove(0);
        }
        if col.want_sample() && step == 70 {
            col.sample(json!({"front": front.name(), "region": reg.name(), "recent": recent, "uplink": hex(&bytes)}));
        }
    }
}
