fn main() {
    lrv_core::runner::main(&[]);
}
