//! C11 — OTAA join establishes exactly the session the JoinAccept defines.

use crate::net::*;
use crate::regions::{self, Reg};
use crate::sim::*;
use lrv_core::refcodec::*;
use lrv_core::*;

pub struct C11;

impl Monitor for C11 {
    fn prop(&self) -> &'static str {
        "C11"
    }
    fn scalable(&self, g: &str) -> bool {
        let _ = g;
        true
    }
    fn gens(&self, tier: Tier) -> Vec<Gen> {
        vec![gen("dlsettings-sweep", 256 * 9 * 3 * tier.pick(1, 8, 0)), gen("joins", tier.pick(40_000, 3_000_000, 40))]
    }
    fn rule(&self) -> String {
        "dlsettings-sweep: every DLSettings byte x 9 regions x 3 front-ends with a random RxDelay/CFList; joins: random JoinNonce/NetID/DevAddr, RxDelay 0..255, CFList {none, type 0 with in-band/zero/out-of-band/random frequencies, type 1 with random/all-zero/single-bit masks, RFU type}, delivered in RX1, RX2, neither, or preceded by corrupted copies / wrong-key accepts / Class C noise, after 0-5 failed attempts and as re-join from a joined state. JoinRequest and outcome are judged by the reference codec and the regional tables. Class = (region, front-end, accept-field classes, delivery, attempt index).".into()
    }
    fn assumptions(&self) -> Vec<String> {
        vec![
            "identifiers are configured as wire-order (LSB first) arrays, as lorawan::keys documents".into(),
            "RX2 data rate in the accept: rates of the region's mandatory set must be applied (dynamic plans DR0-5, fixed plans DR8-13), rates no edition defines must be ignored, optional rates (FSK, SF7/250, LR-FHSS, uplink-only rates of fixed plans) may be applied or ignored".into(),
            "CFList frequencies: inside a sub-band every edition allows must be installed, outside the widest band of the plan must be ignored, between the two either; type 1 on a dynamic plan and type 0 on a fixed plan are ignored; an all-zero type 1 mask is invalid".into(),
            "RxDelay uses the low nibble (0 -> 1 s)".into(),
        ]
    }
    fn required_events(&self, tier: Tier) -> Vec<&'static str> {
        if tier == Tier::Sanitizer {
            vec!["joined"]
        } else {
            vec!["joined", "no_join_accept", "join_request_ok", "joined_in_rx2", "joined_after_corrupt_copy", "rejoin_from_joined", "cflist_type0_applied", "cflist_zero_entry_withdraws", "cflist_invalid_freq_ignored", "rx2dr_ignored", "rx1off_ignored", "first_uplink_ok", "send_unjoined_refused", "credentials_changed_between_attempts"]
        }
    }

    fn run_case(&self, g: &str, idx: u64, rng: &mut Prng, col: &mut Collector) {
        match g {
            "dlsettings-sweep" => {
                let dl = (idx % 256) as u8;
                let reg = regions::ALL[((idx / 256) % 9) as usize];
                let front = FRONTS[((idx / 2304) % 3) as usize];
                join_case(front, reg, Some(dl), rng, col);
            }
            _ => {
                let front = FRONTS[(idx % 3) as usize];
                let reg = regions::ALL[((idx / 3) % 9) as usize];
                join_case(front, reg, None, rng, col);
            }
        }
    }
}

fn mandatory_rx2_dr(reg: Reg, dr: u8) -> bool {
    if reg.fixed() {
        (8..=13).contains(&dr)
    } else {
        dr <= 5
    }
}

#[derive(Clone, Debug)]
enum Cf {
    None,
    Type0([u32; 5]), // Hz/100 raw values
    Type1([u8; 9]),
    Rfu([u8; 16]),
}

fn gen_cf(reg: Reg, rng: &mut Prng) -> (Cf, &'static str) {
    let (lo, hi) = reg.inner_band();
    match rng.below(10) {
        0 | 1 => (Cf::None, "none"),
        2 | 3 => {
            let mut f = [0u32; 5];
            for x in f.iter_mut() {
                *x = (lo + (rng.below(((hi - lo) / 100) as u64) as u32) * 100) / 100;
            }
            (Cf::Type0(f), "t0-inband")
        }
        4 => {
            let mut f = [0u32; 5];
            for x in f.iter_mut() {
                *x = match rng.below(4) {
                    0 => 0,
                    1 => *rng.pick(&[1_000_000u32, 4_000_000, 1, 0xFF_FFFF, 3_000_000, 10_000_000]), // 100 MHz, 400 MHz, ...
                    2 => (hi + 100 + rng.below(5_000_000) as u32) / 100,
                    _ => (lo + (rng.below(((hi - lo) / 100) as u64) as u32) * 100) / 100,
                };
            }
            (Cf::Type0(f), "t0-mixed")
        }
        5 => (Cf::Type0([0; 5]), "t0-zero"),
        6 => (Cf::Type1(rng.arr()), "t1-random"),
        7 => {
            let m = match rng.below(6) {
                0 => [0u8; 9],
                1 => {
                    let mut m = [0u8; 9];
                    m[rng.below(9) as usize] = 1 << rng.below(8);
                    m
                }
                // one sub-band (what network servers really send), every sub-band in turn
                2 | 3 => {
                    let sb = rng.below(8) as usize;
                    let mut m = [0u8; 9];
                    m[sb] = 0xFF;
                    m[8] = 1 << sb;
                    m
                }
                // exactly two 125 kHz channels, both in one bank
                4 => {
                    let bank = rng.below(8) as usize;
                    let a = rng.below(8) as u8;
                    let b = (a + 1 + rng.below(7) as u8) % 8;
                    let mut m = [0u8; 9];
                    m[bank] = (1 << a) | (1 << b);
                    m
                }
                _ => [0xFF; 9],
            };
            (Cf::Type1(m), if m == [0u8; 9] { "t1-zero" } else { "t1-edge" })
        }
        8 => {
            let mut b: [u8; 16] = rng.arr();
            b[15] = rng.range(2, 255) as u8;
            (Cf::Rfu(b), "rfu-type")
        }
        _ => {
            let mut f = [0u32; 5];
            for x in f.iter_mut() {
                *x = rng.below(1 << 24) as u32;
            }
            (Cf::Type0(f), "t0-random")
        }
    }
}

fn cf_wire(c: &Cf) -> Option<[u8; 16]> {
    match c {
        Cf::None => None,
        Cf::Type0(f) => {
            let mut b = [0u8; 16];
            for i in 0..5 {
                b[3 * i..3 * i + 3].copy_from_slice(&f[i].to_le_bytes()[..3]);
            }
            Some(b)
        }
        Cf::Type1(m) => {
            let mut b = [0u8; 16];
            b[..9].copy_from_slice(m);
            b[15] = 1;
            Some(b)
        }
        Cf::Rfu(b) => Some(*b),
    }
}

fn join_case(front: Front, reg: Reg, dl_fixed: Option<u8>, rng: &mut Prng, col: &mut Collector) {
    let mut creds = default_creds(rng);
    let bias = if reg.fixed() && rng.chance(1, 3) { Some((rng.range(1, 8) as u8, rng.range(1, 3) as usize)) } else { None };
    let opts = DevOpts { rng_seed: Some(rng.next_u64()), bias, ..Default::default() };
    let mut dev: Dev = Dev::new(front, reg, creds.clone(), &opts);
    let failed_first = if dl_fixed.is_some() { 0 } else { *rng.pick(&[0u64, 0, 0, 1, 2, 5]) };
    let rejoin = dl_fixed.is_none() && rng.chance(1, 4);
    let mut attempt = 0;
    let mut nonces_seen: Vec<u16> = vec![];
    let mut joined_before: Option<([u8; 16], [u8; 16], u32)> = None;
    let rounds = failed_first + 1 + if rejoin { 1 } else { 0 };
    let mut last_cf: Option<Cf> = None;
    let mut was_joined_hint = false;
    for round in 0..rounds {
        attempt += 1;
        let give_accept = round >= failed_first;
        // now and then the application joins with other credentials than in the attempt before
        // (whether that one failed or succeeded): the request carries what is configured now
        if round > 0 && dl_fixed.is_none() && rng.chance(1, 4) {
            let before = creds.clone();
            creds = default_creds(rng);
            // (every other change is a new root key for the same device: DevEUI and JoinEUI stay)
            if rng.bool() {
                creds.dev_eui = before.dev_eui;
                creds.app_eui = before.app_eui;
                col.event("root_key_changed_between_attempts");
            }
            dev.creds = creds.clone();
            col.event("credentials_changed_between_attempts");
        }
        // ---- the accept the network will (maybe) send ------------------------------------------
        let dl = dl_fixed.unwrap_or_else(|| if rng.chance(1, 2) { rng.u8() } else { (rng.below(8) as u8) << 4 | *rng.pick(&[0u8, 1, 2, 3, 4, 5, 8, 9, 10, 13]) });
        let rxd = if rng.chance(1, 4) { rng.u8() } else { rng.below(16) as u8 };
        let (mut cf, mut cf_class) = gen_cf(reg, rng);
        // a re-join whose CFList withdraws (entry 0) some of the slots an earlier accept filled
        if was_joined_hint && !reg.fixed() && rng.chance(1, 2) {
            if let Some(Cf::Type0(prev)) = &last_cf {
                let mut f = *prev;
                for x in f.iter_mut() {
                    if rng.bool() {
                        *x = 0;
                    }
                }
                cf = Cf::Type0(f);
                cf_class = "t0-withdraw";
            }
        }
        let ja = JoinAcceptDesc { join_nonce: rng.below(1 << 24) as u32, net_id: rng.below(1 << 24) as u32, dev_addr: rng.next_u32(), dl_settings: dl, rx_delay: rxd, cf_list: cf_wire(&cf) };
        // The accept depends on nothing in the request (1.0.x), so it can be built up front.
        let good = encode_join_accept(&creds.app_key, &ja);
        let delivery = if !give_accept { rng.below(3) + 10 } else { rng.below(6) };
        let mut script = Script::default();
        let mut deliv = "";
        let mut expect_join = give_accept;
        match delivery {
            0 => {
                script.rx1.push(good.clone());
                deliv = "rx1";
            }
            1 => {
                script.rx2.push(good.clone());
                deliv = "rx2";
            }
            2 => {
                // corrupted copy first
                let mut bad = good.clone();
                let p = 1 + rng.below((bad.len() - 1) as u64) as usize;
                bad[p] ^= 1 << rng.below(8);
                script.rx1.push(bad);
                if front == Front::Nb {
                    script.rx1.push(good.clone());
                } else {
                    script.rx2.push(good.clone());
                }
                deliv = "after-corrupt";
            }
            3 => {
                // accept under another root key first
                let mut k2 = creds.app_key;
                k2[rng.below(16) as usize] ^= 1 << rng.below(8);
                script.rx1.push(encode_join_accept(&k2, &ja));
                script.rx2.push(good.clone());
                deliv = "after-wrong-key";
            }
            4 => {
                // stray traffic in the Class C gap, then the accept in RX1
                if front == Front::AsyncC {
                    let nl = rng.range(12, 40) as usize;
                    script.pre_rx1.push(rng.bytes(nl));
                    deliv = "after-classc-noise";
                } else {
                    deliv = "rx1";
                }
                script.rx1.push(good.clone());
            }
            5 => {
                // a data downlink (not a join accept) in RX1, accept in RX2
                let n = Net { nwk: rng.arr(), app: rng.arr(), addr: rng.next_u32() };
                script.rx1.push(n.downlink(&Down { fcnt: 1, port: Some(1), payload: &[1, 2, 3], ..Default::default() }));
                script.rx2.push(good.clone());
                deliv = "after-data-frame";
            }
            10 => {
                deliv = "silence";
                expect_join = false;
            }
            11 => {
                let mut bad = good.clone();
                let p = 1 + rng.below((bad.len() - 1) as u64) as usize;
                bad[p] ^= 1 << rng.below(8);
                script.rx1.push(bad.clone());
                script.rx2.push(bad);
                deliv = "only-corrupt";
                expect_join = false;
            }
            _ => {
                let mut k2 = creds.app_key;
                k2[rng.below(16) as usize] ^= 0x80;
                script.rx2.push(encode_join_accept(&k2, &ja));
                deliv = "only-wrong-key";
                expect_join = false;
            }
        }
        // reference verdict on what is actually delivered
        let ref_any_ok = script.rx1.iter().chain(script.rx2.iter()).any(|w| open_join_accept(&creds.app_key, w).map(|x| x.1).unwrap_or(false));
        if ref_any_ok != expect_join {
            col.event("harness_expectation_mismatch");
            expect_join = ref_any_ok;
        }
        // fixed plans, one attempt in five: the application (or ADR before a re-join) has the device on the
        // 500 kHz uplink rate when the accept arrives - what the accept defines is applied all the same
        if reg.fixed() && rng.chance(1, 5) {
            dev.set_datarate(if reg == Reg::US915 { 4 } else { 6 });
            col.event("joins_at_the_500khz_rate");
        }
        let was_joined = dev.snapshot().joined;
        let snap_before = dev.snapshot();
        let ev0 = dev.ev_len();
        let resp = dev.transact(Action::Join, &script);
        let class = format!("{}|{}|dl={:02x}|rxd={}|{}|{}|att={}|wasjoined={}", reg.name(), front.name(), if dl_fixed.is_some() { dl } else { dl & 0xF0 }, rxd.min(16), cf_class, deliv, attempt.min(3), was_joined);
        col.eval(&class);
        let ctx = |what: &str| json!({"what": what, "front": front.name(), "region": reg.name(), "dl_settings": dl, "rx_delay": rxd, "cflist": format!("{:?}", cf), "delivery": deliv, "attempt": attempt, "bias": bias, "was_joined": was_joined, "join_accept": hex(&good), "app_key": hex(&creds.app_key), "response": format!("{:?}", resp)});
        if col.want_sample() {
            col.sample(ctx("sample"));
        }
        if let Resp::Panic(m, l) = &resp {
            col.violation(&format!("C11|panic|{}|rx2dr={}", short_loc(l), if dl & 0x0f == 15 { "15" } else { "other" }), "device panicked while handling a JoinAccept", json!({"ctx": ctx("panic"), "msg": m, "loc": l}));
            return;
        }
        // ---- JoinRequest ---------------------------------------------------------------------------
        let txs = dev.tx_since(ev0);
        let Some(Ev::Tx { bytes: jr, .. }) = txs.first().cloned() else {
            col.violation(&format!("C11|no-join-request|{}", resp.kind()), "join attempt did not transmit a JoinRequest", ctx("no-tx"));
            return;
        };
        let nonce = if jr.len() == 23 { u16::from_le_bytes([jr[17], jr[18]]) } else { 0 };
        let exp_jr = encode_join_request(&creds.app_key, &creds.app_eui, &creds.dev_eui, nonce);
        if jr != exp_jr {
            let part = if jr.len() != 23 {
                "length"
            } else if jr[0] != 0 {
                "mhdr"
            } else if jr[1..9] != creds.app_eui {
                "join-eui"
            } else if jr[9..17] != creds.dev_eui {
                "dev-eui"
            } else {
                "mic"
            };
            col.violation(&format!("C11|join-request|{}", part), "JoinRequest differs from the reference encoding of the configured identifiers", json!({"ctx": ctx("jr"), "got": hex(&jr), "expected": hex(&exp_jr)}));
        } else {
            col.event("join_request_ok");
        }
        nonces_seen.push(nonce);
        // ---- outcome --------------------------------------------------------------------------------
        let now_joined = dev.snapshot().joined;
        let noise = deliv == "after-classc-noise";
        match (&resp, expect_join) {
            (Resp::JoinSuccess, true) => {
                col.event("joined");
                if deliv == "rx2" {
                    col.event("joined_in_rx2");
                }
                if deliv == "after-corrupt" {
                    col.event("joined_after_corrupt_copy");
                }
                if was_joined {
                    col.event("rejoin_from_joined");
                }
            }
            (Resp::NoJoinAccept, false) => {
                col.event("no_join_accept");
                if now_joined && !was_joined {
                    col.violation("C11|joined-without-accept", "device is joined although no JoinAccept verified", ctx("state"));
                }
                // an unjoined device refuses to send
                if !was_joined {
                    let r = dev.transact(Action::Send { data: &[1], port: 1, confirmed: false }, &Script::silent());
                    match r {
                        Resp::Error(e) if e.contains("NotJoined") => col.event("send_unjoined_refused"),
                        other => col.violation("C11|send-while-unjoined", "send on an unjoined device did not report 'not joined'", json!({"ctx": ctx("send"), "send_response": format!("{:?}", other)})),
                    }
                    if dev.session_keys().is_some() {
                        col.violation("C11|session-without-join", "a session exists although the join failed", ctx("session"));
                    }
                }
                continue;
            }
            (Resp::JoinSuccess, false) => {
                col.violation(&format!("C11|joined-on-invalid-accept|{}", deliv), "device joined although no delivered JoinAccept verifies under the root key", ctx("bad-join"));
                return;
            }
            (_, true) => {
                col.violation(&format!("C11|valid-accept-not-joined|{}|{}|{}", deliv, front.name(), resp.kind()), "a verifying JoinAccept was delivered in a receive window but the device did not join", ctx("not-joined"));
                return;
            }
            (other, false) => {
                if !noise {
                    col.violation(&format!("C11|failed-join-response|{}|{}", deliv, other.kind()), "a join attempt without a verifying accept did not end in 'no join accept'", ctx("resp"));
                }
                continue;
            }
        }
        // ---- joined: session -----------------------------------------------------------------------
        let (rn, ra) = derive_session_keys(&creds.app_key, ja.join_nonce, ja.net_id, nonce);
        let Some((nk, ak, addr)) = dev.session_keys() else {
            col.violation("C11|no-session-after-join", "JoinSuccess but no session keys", ctx("keys"));
            return;
        };
        if nk != rn || ak != ra {
            // which nonce would explain it?
            let other = nonces_seen.iter().rev().skip(1).any(|n2| derive_session_keys(&creds.app_key, ja.join_nonce, ja.net_id, *n2).0 == nk);
            col.violation(&format!("C11|session-keys|nwk={}|app={}|{}", nk == rn, ak == ra, if other { "older-devnonce" } else { "other" }), "session keys differ from the LoRaWAN 1.0.x derivation", json!({"ctx": ctx("keys"), "dev_nonce": nonce, "nwk": hex(&nk), "expected_nwk": hex(&rn), "app": hex(&ak), "expected_app": hex(&ra)}));
        }
        if addr != ja.dev_addr {
            col.violation("C11|dev-addr", "device address differs from the assigned one", json!({"ctx": ctx("addr"), "got": addr}));
        }
        if dev.fcnt_up() != Some(0) || dev.fcnt_down() != Some(None) {
            col.violation(&format!("C11|counters-not-restarted|up={:?}|down={:?}", dev.fcnt_up().map(|x| x == 0), dev.fcnt_down().map(|x| x.is_none())), "frame counters did not restart with the new session", json!({"ctx": ctx("counters"), "fcnt_up": dev.fcnt_up(), "fcnt_down": format!("{:?}", dev.fcnt_down())}));
        }
        if let Some(old) = joined_before {
            if old.0 == nk {
                col.violation("C11|rejoin-kept-old-keys", "re-join kept the previous session", ctx("rejoin"));
            }
        }
        joined_before = Some((nk, ak, addr));
        last_cf = Some(cf.clone());
        was_joined_hint = true;
        // ---- parameters applied / ignored -------------------------------------------------------
        let s = dev.snapshot();
        let exp_delay = match rxd & 0x0f {
            0 | 1 => 1000,
            d => d as u32 * 1000,
        };
        if s.rx1_delay != exp_delay {
            col.violation(&format!("C11|rx-delay|field={}", (rxd & 0x0f).min(2)), "RX1 delay after join differs from the accept's RxDelay", json!({"ctx": ctx("rxdelay"), "got": s.rx1_delay, "expected": exp_delay}));
        }
        let off = (dl >> 4) & 7;
        let exp_off_prev = snap_before.rx1_dr_offset;
        if off <= reg.max_rx1_offset() {
            if s.rx1_dr_offset != off {
                col.violation(&format!("C11|rx1-offset-not-applied|{}", reg.name()), "valid RX1DROffset of the accept was not applied", json!({"ctx": ctx("off"), "got": s.rx1_dr_offset}));
            }
        } else {
            col.event("rx1off_ignored");
            // 'ignored': the accept's value is not taken; what stays in force is the value from before the
            // join or the regional default (a join may return the receive parameters to their defaults)
            if s.rx1_dr_offset != exp_off_prev && s.rx1_dr_offset != 0 {
                col.violation(&format!("C11|rx1-offset-invalid-applied|{}|off={}", reg.name(), off), "RX1DROffset beyond the regional maximum was applied", json!({"ctx": ctx("off"), "got": s.rx1_dr_offset, "before": exp_off_prev}));
            }
        }
        let r2 = dl & 0x0f;
        if mandatory_rx2_dr(reg, r2) {
            if s.rx2_data_rate != Some(r2) {
                col.violation(&format!("C11|rx2-dr-not-applied|{}|dr={}", reg.name(), r2), "valid RX2 data rate of the accept was not applied", json!({"ctx": ctx("rx2"), "got": s.rx2_data_rate}));
            }
        } else if !reg.dr_defined_in_some_edition(r2) {
            col.event("rx2dr_ignored");
            if s.rx2_data_rate != snap_before.rx2_data_rate && s.rx2_data_rate.is_some() {
                col.violation(&format!("C11|rx2-dr-undefined-applied|{}|dr={}", reg.name(), r2), "an RX2 data rate the region does not define was applied", json!({"ctx": ctx("rx2"), "got": s.rx2_data_rate, "before": snap_before.rx2_data_rate}));
            }
        }
        // CFList
        let j = reg.default_channels().len();
        match (&cf, reg.fixed()) {
            (Cf::Type0(f), false) => {
                for (i, raw) in f.iter().enumerate() {
                    let hz = raw * 100;
                    let ch = s.region.channels[j + i];
                    let enabled = s.region.channel_mask[(j + i) / 8] & (1 << ((j + i) % 8)) != 0;
                    if *raw == 0 {
                        // an entry of 0 marks the slot as unused: no usable channel may remain there
                        if ch.is_some() && enabled {
                            let kept = ch.map(|c| c.ul_frequency) == snap_before.region.channels[j + i].map(|c| c.ul_frequency);
                            col.violation(&format!("C11|cflist|zero-entry-leaves-channel|{}", if kept { "kept-from-before" } else { "created" }), "a CFList entry of 0 (slot unused) left or created a usable channel in that slot", json!({"ctx": ctx("cf"), "index": j + i, "channel": format!("{:?}", ch)}));
                        } else {
                            col.event("cflist_zero_entry_withdraws");
                        }
                    } else if reg.clearly_valid_freq(hz) {
                        match ch {
                            Some(c) if c.ul_frequency == hz && c.rx1_frequency == hz && enabled => {
                                col.event("cflist_type0_applied");
                                // CFList channels are DR0..DR5 channels (TS001 / RP002: "usable for DR0 to DR5")
                                if (c.dr_min, c.dr_max) != (0, 5) {
                                    col.violation(&format!("C11|cflist|channel-dr-range|{}-{}", c.dr_min, c.dr_max), "a channel created from the CFList does not cover DR0..DR5", json!({"ctx": ctx("cf"), "index": j + i, "channel": format!("{:?}", c)}));
                                }
                            }
                            _ => col.violation(&format!("C11|cflist|inband-not-installed|{}", reg.name()), "an in-band CFList frequency was not installed as an enabled channel", json!({"ctx": ctx("cf"), "index": j + i, "freq": hz, "channel": format!("{:?}", ch), "enabled": enabled})),
                        }
                    } else if !reg.in_band(hz) {
                        col.event("cflist_invalid_freq_ignored");
                        if ch.map(|c| c.ul_frequency) == Some(hz) {
                            col.violation(&format!("C11|cflist|out-of-band-installed|{}", reg.name()), "an out-of-band CFList frequency was installed as a channel", json!({"ctx": ctx("cf"), "index": j + i, "freq": hz}));
                        }
                    }
                }
                // default channels untouched
                for (i, f0) in reg.default_channels().iter().enumerate() {
                    if s.region.channels[i].map(|c| c.ul_frequency) != Some(*f0) {
                        col.violation("C11|cflist|default-channel-changed", "a default channel changed after join", json!({"ctx": ctx("cf"), "index": i}));
                    }
                }
            }
            (Cf::Type1(m), true) => {
                // a mask with two or more 125 kHz channels is clearly usable at the default data
                // rate; an all-zero mask clearly is not; anything between is left to either reading
                let usable = m[..8].iter().map(|b| b.count_ones()).sum::<u32>() >= 2;
                let all_zero = m.iter().all(|b| *b == 0);
                if usable {
                    if s.region.channel_mask != *m {
                        col.violation("C11|cflist|type1-not-applied", "type 1 CFList mask was not applied on a fixed plan", json!({"ctx": ctx("cf"), "got": hex(&s.region.channel_mask)}));
                    }
                } else if all_zero && s.region.channel_mask == *m {
                    col.violation("C11|cflist|type1-zero-mask-applied", "an all-zero type 1 CFList (no usable channel) was applied", json!({"ctx": ctx("cf")}));
                }
            }
            (Cf::Type0(_), true) | (Cf::Type1(_), false) | (Cf::Rfu(_), _) | (Cf::None, _) => {
                // must change nothing in the plan
                if s.region.channels != snap_before.region.channels || (s.region.channel_mask != snap_before.region.channel_mask && !reg.fixed()) {
                    col.violation(&format!("C11|cflist|foreign-type-applied|{}|{}", cf_class, if reg.fixed() { "fixed" } else { "dynamic" }), "a CFList of a type that does not apply to the plan changed the channel plan", json!({"ctx": ctx("cf")}));
                }
                // a join starts a new session from the region's default plan: with no applicable
                // channel list every channel of a fixed plan is enabled again, whatever mask the
                // previous session was left with
                if reg.fixed() && s.region.channel_mask != [0xFF; 9] {
                    col.violation(&format!("C11|cflist|foreign-type-changed-mask|{}", cf_class), "after a join without applicable channel list a fixed plan is not back at its default mask (a list that does not apply changed it, or the previous session's mask survived)", json!({"ctx": ctx("cf")}));
                }
            }
        }
        // ---- first uplink under the new session ------------------------------------------------
        // (fixed plans: the first uplink needs two enabled 125 kHz channels at the default rate)
        let usable_plan = !reg.fixed() || s.region.channel_mask[..8].iter().map(|b| b.count_ones()).sum::<u32>() >= 2;
        if usable_plan {
            let ev1 = dev.ev_len();
            let r = dev.transact(Action::Send { data: &[0xAB], port: 2, confirmed: false }, &Script::silent());
            if let Resp::Panic(m, l) = &r {
                col.violation(&format!("C11|first-uplink-panic|{}|{}", short_loc(l), cf_class), "first uplink after join panicked", json!({"ctx": ctx("up"), "msg": m, "loc": l}));
                return;
            }
            let net = Net { nwk: rn, app: ra, addr: ja.dev_addr };
            match dev.tx_since(ev1).first() {
                Some(Ev::Tx { bytes, .. }) => match net.decode_uplink(bytes, 0) {
                    Some(u) if u.fcnt == 0 && u.plain == [0xAB] && u.view.f_port == Some(2) => col.event("first_uplink_ok"),
                    other => {
                        if nk == rn && ak == ra && addr == ja.dev_addr {
                            col.violation("C11|first-uplink", "first uplink after join is not frame 0 of the new session", json!({"ctx": ctx("up"), "frame": hex(bytes), "decoded": format!("{:?}", other.map(|u| (u.fcnt, u.plain)))}));
                        }
                    }
                },
                _ => col.violation(&format!("C11|first-uplink-missing|{}|{}", r.kind(), cf_class), "send after a successful join handed nothing to the radio", json!({"ctx": ctx("up"), "response": format!("{:?}", r)})),
            }
        }
    }
}
