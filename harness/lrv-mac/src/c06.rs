//! C06 — uplink frame counters never repeat within a session (fault enumeration: a radio
//! fault injected at every radio-call position of every base history).

use crate::net::*;
use crate::regions;
use crate::sim::*;
use lrv_core::*;

pub struct C06;

#[derive(Clone, Copy, Debug, PartialEq)]
enum Step {
    Silent,
    Rx1Hit,
    Rx2Hit,
    Invalid,   // a frame failing its MIC in RX1
    Garbage,   // random bytes in RX2
    ClassC,    // accepted Class C downlink in the gap (async+classC), silent windows
    ConfAcked, // confirmed uplink, ACK downlink in RX1
    ConfSilent,
    Oversize,     // an authentic frame far too long for slow windows, in RX1 or RX2
    ConfOversize, // the same after a confirmed uplink
    Replay,       // the last accepted downlink heard once more (the network repeating itself), RX1 or RX2
    MacHit,       // an authentic RX1 downlink carrying MAC commands (LinkADRReq with NbTrans 2..15, timing, duty cycle, status)
}

const STEPS: [Step; 12] = [Step::Replay, Step::Silent, Step::Rx1Hit, Step::Rx2Hit, Step::Invalid, Step::Garbage, Step::ClassC, Step::ConfAcked, Step::ConfSilent, Step::Oversize, Step::ConfOversize, Step::MacHit];

impl Monitor for C06 {
    fn prop(&self) -> &'static str {
        "C06"
    }
    fn scalable(&self, g: &str) -> bool {
        let _ = g;
        true
    }
    fn gens(&self, tier: Tier) -> Vec<Gen> {
        vec![gen("small-buffer", tier.pick(270, 27_000, 0)), gen("single-fault", tier.pick(600, 200_000, 3)), gen("double-fault", tier.pick(60, 30_000, 0)), gen("expiry", tier.pick(300, 50_000, 2)), gen("long-silence", tier.pick(54, 2_000, 0))]
    }
    fn rule(&self) -> String {
        "single-fault: a base history of 3-10 transactions over {silent, RX1 hit, RX2 hit, invalid frame, garbage, Class C downlink, confirmed+ACK, confirmed silent, oversized frame in RX1/RX2 (also after a confirmed uplink), RX1 hit carrying LinkADRReq with NbTrans 2..15 and other MAC commands} is first run fault-free to count its K radio calls, then re-run K times with a radio error injected at call k (tx/setup_rx/rx_single/rx_continuous/low_power, nb: TxRequest/RxRequest/CancelRx/Phy), the application carrying on with the next sends; double-fault: two fault positions (12 random pairs and every pair of consecutive radio calls); expiry: sessions starting at 2^32-4..2^32-1; long-silence: 100-170 unanswered uplinks in a row (the ADR back-off bookkeeping at 64/96/128 unanswered uplinks, at the data-rate floor). Every data frame handed to the radio is decoded by the reference codec; counters must be strictly increasing until SessionExpired. Class = (front-end, history shape, fault call kind, fault position class, start class).".into()
    }
    fn assumptions(&self) -> Vec<String> {
        vec![
            "a frame passed to PhyRxTx::tx / Event::TxRequest counts as handed to the radio even if that radio call then reports an error (the radio may have transmitted before failing)".into(),
            "after an error the application simply issues its next send (async) or re-fires the pending timeout once (nb)".into(),
        ]
    }
    fn required_events(&self, tier: Tier) -> Vec<&'static str> {
        if tier == Tier::Sanitizer {
            vec!["uplinks_decoded"]
        } else {
            vec!["uplinks_decoded", "faults_injected", "fault_tx", "fault_rx_setup", "fault_rx", "session_expired_reported", "counter_crossed_16bit", "mac_command_steps", "adjacent_double_faults", "port0_uplinks", "replay_steps"]
        }
    }

    fn run_case(&self, g: &str, idx: u64, rng: &mut Prng, col: &mut Collector) {
        let front = FRONTS[(idx % 3) as usize];
        let reg = regions::ALL[((idx / 3) % 9) as usize];
        match g {
            "small-buffer" => match (idx / 27) % 3 {
                0 => small_buffer::<32>(reg, rng, col),
                1 => small_buffer::<64>(reg, rng, col),
                _ => small_buffer::<100>(reg, rng, col),
            },
            "single-fault" | "double-fault" => {
                let start = *rng.pick(&[0u32, 0, 0xFFFD, 0xFFFE, 0x1_FFFD, 0x7FFF_FFFE]);
                let n = rng.range(3, 10) as usize;
                let mut steps: Vec<Step> = (0..n).map(|_| *rng.pick(&STEPS)).collect();
                steps.extend([Step::Silent, Step::Rx1Hit, Step::Silent]);
                let seed = rng.next_u64();
                // fault-free run
                let base = run_history(front, reg, start, &steps, &[], seed, col, "none");
                let Some(k_calls) = base else { return };
                if g == "single-fault" {
                    for k in 0..k_calls {
                        run_history(front, reg, start, &steps, &[k], seed, col, "single");
                    }
                } else {
                    for _ in 0..12 {
                        let a = rng.below(k_calls as u64) as usize;
                        let b = rng.below(k_calls as u64) as usize;
                        run_history(front, reg, start, &steps, &[a.min(b), a.max(b) + 1], seed, col, "double");
                    }
                    // ... and every pair of consecutive radio calls failing (the clean-up after a failed
                    // call fails as well)
                    for k in 0..k_calls {
                        run_history(front, reg, start, &steps, &[k, k + 1], seed, col, "double");
                    }
                    col.event("adjacent_double_faults");
                }
            }
            "long-silence" => {
                // 100-170 uplinks in a row that nobody answers (ADR is on by default: the back-off
                // bookkeeping at 64, 96, 128, ... unanswered uplinks runs at the data-rate floor too),
                // with the odd hit or rejected frame in between
                let start = *rng.pick(&[0u32, 0xFFA0, 0x1_FFA0]);
                let n = rng.range(100, 171) as usize;
                let steps: Vec<Step> = (0..n).map(|i| if i > 0 && i % 97 == 0 { *rng.pick(&[Step::Invalid, Step::Garbage, Step::ConfSilent]) } else { Step::Silent }).collect();
                let seed = rng.next_u64();
                col.event("long_silence_histories");
                let base = run_history(front, reg, start, &steps, &[], seed, col, "none");
                if let Some(k) = base {
                    if k > 0 && rng.bool() {
                        let f = rng.below(k as u64) as usize;
                        run_history(front, reg, start, &steps, &[f], seed, col, "single");
                    }
                }
            }
            "expiry" => {
                let start = 0xFFFF_FFFF - rng.below(5) as u32;
                let n = rng.range(4, 9) as usize;
                let steps: Vec<Step> = (0..n).map(|_| *rng.pick(&STEPS)).collect();
                let seed = rng.next_u64();
                let base = run_history(front, reg, start, &steps, &[], seed, col, "none");
                if let Some(k) = base {
                    if k > 0 && rng.bool() {
                        let f = rng.below(k as u64) as usize;
                        run_history(front, reg, start, &steps, &[f], seed, col, "single");
                    }
                }
            }
            _ => unreachable!(),
        }
    }
}

fn start_class(s: u32) -> &'static str {
    match s {
        0 => "0",
        0xFFFD..=0xFFFF => "near-16bit",
        0xFFFF_FFF0..=0xFFFF_FFFF => "near-max",
        _ => "mid",
    }
}

/// Runs one history with faults at the given radio-call indices. Returns the number of radio
/// calls made (for the fault-free run).
#[allow(clippy::too_many_arguments)]
fn run_history(front: Front, reg: regions::Reg, start: u32, steps: &[Step], faults: &[usize], seed: u64, col: &mut Collector, fault_mode: &str) -> Option<usize> {
    let mut rng = Prng::new(seed);
    let opts = DevOpts { rng_seed: Some(seed ^ 0x55), ..Default::default() };
    let (mut dev, net): (Dev, Net) = match abp_dev(front, reg, &mut rng, &opts, |sj| {
        sj["fcnt_up"] = json!(start);
    }) {
        Ok(x) => x,
        Err(e) => {
            col.event("harness_session_json_rejected");
            col.notes.insert("session_json_error".into(), json!(e));
            return None;
        }
    };
    // nb front-end: half of the histories use a radio that completes TX asynchronously
    // (TxRequest -> Txing, completion through a PHY event: the SendingData state)
    let tx_async = front == Front::Nb && seed & 1 == 1;
    dev.log.borrow_mut().tx_async = tx_async;
    if tx_async {
        col.event("nb_async_tx_histories");
    }
    // nb front-end: in one history in four a fault at a TxRequest shows as a reply of the wrong kind
    // (the radio took the frame and answers `Idle`; the device reports UnexpectedRadioResponse)
    let odd = front == Front::Nb && (seed >> 1) & 3 == 2;
    dev.log.borrow_mut().odd_reply = odd;
    if odd {
        col.event("nb_odd_reply_histories");
    }
    let fname = if tx_async { "nb-async-tx" } else { front.name() };
    let mut fcnt_down: u32 = 0;
    let mut last_accepted: Option<Vec<u8>> = None;
    let mut fault_iter = faults.iter().copied();
    let mut next_fault = fault_iter.next();
    let mut sent: Vec<(Vec<u8>, usize, &'static str)> = vec![]; // (bytes, step index, nearest preceding fault)
    let mut last_fault: &'static str = "none";
    let mut expired_at: Option<usize> = None;
    let mut fault_kinds: Vec<&'static str> = vec![];
    let mut resps: Vec<String> = vec![];
    // nb front-end: the application also calls send/join in the middle of transactions (same
    // calls in the fault-free and the faulted runs of one history)
    let mut intr_rng = Prng::new(seed ^ 0x1a7e);
    for (i, st) in steps.iter().enumerate() {
        // arm the next fault (single-shot, absolute radio-call index)
        dev.log.borrow_mut().fault_at = next_fault;
        // consecutive positions are armed together: the second may fall into the same transaction
        dev.log.borrow_mut().fault_also = if faults.len() == 2 && faults[1] == faults[0] + 1 { Some(faults[1]) } else { None };
        let payload = [i as u8, 0xC0, (i * 7) as u8];
        let mut script = Script::default();
        if front == Front::Nb && intr_rng.chance(1, 3) {
            let k = match intr_rng.below(5) {
                0 => Intrusion::Send,
                1 => Intrusion::SendConfirmed,
                2 => Intrusion::Join,
                3 => Intrusion::StrayTimeout,
                _ => Intrusion::StrayRx(intr_rng.bytes_below(24)),
            };
            script.intrude.push((intr_rng.range(1, 6) as u32, k));
            col.event("nb_intrusions");
        }
        let confirmed = matches!(st, Step::ConfAcked | Step::ConfSilent | Step::ConfOversize);
        fcnt_down += 1;
        // (one downlink in three is a confirmed one)
        let good = net.downlink(&Down { fcnt: fcnt_down, ack: confirmed, confirmed: (i as u64 + seed / 7) % 3 == 0, port: Some(5), payload: &[i as u8], ..Default::default() });
        match st {
            Step::Silent | Step::ConfSilent => {}
            Step::Rx1Hit | Step::ConfAcked => {
                last_accepted = Some(good.clone());
                script.rx1.push(good)
            }
            Step::Rx2Hit => {
                last_accepted = Some(good.clone());
                script.rx2.push(good)
            }
            Step::Replay => {
                // (confirmed or not, it was accepted once: now it is a replay and must cost nothing but
                // the counter of the uplink it answers)
                fcnt_down -= 1;
                if let Some(prev) = &last_accepted {
                    if (i as u64 + seed) % 2 == 0 {
                        script.rx1.push(prev.clone());
                    } else {
                        script.rx2.push(prev.clone());
                    }
                    col.event("replay_steps");
                }
            }
            Step::MacHit => {
                // commands that may change how the device treats its uplinks; data rate, power and
                // mask are left as they are (DR 15 / power 15 = keep; mask = the plan's default set)
                let nb = 2 + ((i as u64 + seed) % 14) as u8;
                let mut cmds = if reg.fixed() { link_adr_req(15, 15, 0x00FF, 6, nb) } else { link_adr_req(15, 15, (1u16 << reg.default_channels().len()) - 1, 0, nb) };
                match (i as u64 + seed / 16) % 4 {
                    0 => cmds.extend(rx_timing_setup_req(1 + (seed % 3) as u8)),
                    1 => cmds.extend(duty_cycle_req((seed % 8) as u8)),
                    2 => cmds.extend(dev_status_req()),
                    _ => {}
                }
                script.rx1.push(net.downlink(&Down { fcnt: fcnt_down, ack: confirmed, port: Some(5), payload: &[i as u8], f_opts: &cmds, ..Default::default() }));
                col.event("mac_command_steps");
            }
            Step::Invalid => {
                let mut b = good;
                let n = b.len();
                b[n - 1] ^= 0x40;
                script.rx1.push(b);
                fcnt_down -= 1;
            }
            Step::Garbage => {
                script.rx2.push(rng.bytes(17));
                fcnt_down -= 1;
            }
            Step::Oversize | Step::ConfOversize => {
                // (at a fast window it fits and is simply accepted; the counter is spent either way)
                let big = net.downlink(&Down { fcnt: fcnt_down, ack: confirmed, port: Some(6), payload: &[0xAB; 200], ..Default::default() });
                if (i + seed as usize) % 2 == 0 {
                    script.rx1.push(big);
                } else {
                    script.rx2.push(big);
                }
                col.event("oversize_steps");
            }
            Step::ClassC => {
                if front == Front::AsyncC {
                    script.pre_rx1.push(good);
                } else {
                    fcnt_down -= 1;
                }
            }
        }
        let ev0 = dev.ev_len();
        // one uplink in seven is MAC-only (FPort 0, no payload): it spends a counter like any other
        let mac_only = (i as u64 + seed / 3) % 7 == 3;
        if mac_only {
            col.event("port0_uplinks");
        }
        let resp = if mac_only { dev.transact(Action::Send { data: &[], port: 0, confirmed }, &script) } else { dev.transact(Action::Send { data: &payload, port: 7, confirmed }, &script) };
        // a downlink the device did not get to see (fault) does not advance the network's view
        for e in dev.evs_since(ev0) {
            match e {
                Ev::Tx { bytes, .. } => sent.push((bytes, i, last_fault)),
                Ev::Fault(k) => {
                    last_fault = k;
                    fault_kinds.push(k);
                    next_fault = fault_iter.next();
                }
                _ => {}
            }
        }
        if matches!(resp, Resp::SessionExpired) && expired_at.is_none() {
            expired_at = Some(sent.len());
            col.event("session_expired_reported");
        }
        if let Resp::Panic(m, l) = &resp {
            col.violation(&format!("C06|panic|{}|{}", fname, short_loc(l)), "device panicked during the history", json!({"steps": format!("{:?}", steps), "faults": faults, "msg": m, "loc": l}));
            return None;
        }
        resps.push(format!("{}", resp.kind()));
        // keep the network's downlink counter ahead of anything the device may have accepted
        if let Some(Some(d)) = dev.fcnt_down() {
            fcnt_down = fcnt_down.max(d);
        }
    }
    let calls = dev.log.borrow().radio_calls;
    let injected = dev.log.borrow().faults_injected;
    col.event_n("faults_injected", injected as u64);
    for k in &fault_kinds {
        match *k {
            "tx" => col.event("fault_tx"),
            "tx-odd-reply" => col.event("fault_tx_odd_reply"),
            "setup_rx" | "rx_request" => col.event("fault_rx_setup"),
            "rx_single" | "rx_continuous" | "phy" | "cancel_rx" => col.event("fault_rx"),
            _ => col.event("fault_other"),
        }
    }
    // ---- oracle over the frames handed to the radio --------------------------------------------
    let shape: String = steps.iter().map(|s| format!("{:?}", s).chars().next().unwrap()).collect::<String>().chars().take(6).collect();
    let fk = fault_kinds.first().copied().unwrap_or("none");
    let fpos = match faults.first() {
        None => "none",
        Some(k) if *k < 4 => "early",
        Some(_) => "late",
    };
    col.eval(&format!("{}|{}|{}|{}|{}|{}", fname, shape, fk, fpos, start_class(start), fault_mode));
    if col.want_sample() && faults.len() == 1 {
        col.sample(json!({"front": fname, "region": reg.name(), "start_fcnt_up": start, "steps": format!("{:?}", steps), "fault_at_radio_call": faults, "fault_kinds": fault_kinds, "responses": resps, "uplinks": sent.len()}));
    }
    let mut prev: Option<(u32, Vec<u8>)> = None;
    let ctx = |extra: serde_json::Value| json!({"front": fname, "region": reg.name(), "start_fcnt_up": start, "steps": format!("{:?}", steps), "fault_at_radio_call": faults, "fault_kinds": fault_kinds, "responses": resps, "seed": seed, "extra": extra});
    for (n, (bytes, step, after)) in sent.iter().enumerate() {
        let hint = prev.as_ref().map(|p| p.0).unwrap_or(start);
        let Some(u) = net.decode_uplink_any(bytes, hint) else {
            col.violation(
                &format!("C06|undecodable-uplink|{}|start={}", fname, start_class(start)),
                "an uplink does not verify under any full counter with the wire's low half (counter used for MIC is not the full counter)",
                ctx(json!({"frame": hex(bytes), "step": step})),
            );
            continue;
        };
        col.event("uplinks_decoded");
        // the same full counter must also be the one the payload was encrypted with
        let want = [*step as u8, 0xC0, (*step * 7) as u8];
        // (a MAC-only uplink - FPort 0 or none - carries the pending answers, if anything)
        let app_data = u.view.f_port.map(|p| p != 0).unwrap_or(false);
        if app_data && u.plain != want {
            col.violation(
                &format!("C06|payload-not-encrypted-under-the-mic-counter|{}|start={}", fname, start_class(start)),
                "the MIC verifies under a full counter under which the FRMPayload does not decrypt to what was sent",
                ctx(json!({"frame": hex(bytes), "counter": u.fcnt, "decrypted": hex(&u.plain), "sent": hex(&want)})),
            );
        }
        // a MAC-only uplink on port 0 carries the queued answers as its FRMPayload: under the counter the
        // MIC verifies with it must decrypt to a well-formed sequence of MAC answers (a keystream of another
        // counter leaves noise, which parses as one only by accident: no false alarm is possible, and over
        // the many port-0 uplinks of a run a wrong counter does not go unnoticed)
        if u.view.f_port == Some(0) && !u.plain.is_empty() {
            col.event("port0_payloads_decrypted");
            let ok = match parse_uplink_cmds(&u.plain) {
                Ok(cmds) => cmds.iter().all(|(cid, _)| matches!(cid, 0x02..=0x0A | 0x0D)),
                Err(_) => false,
            };
            if !ok {
                col.violation(
                    &format!("C06|port0-payload-not-encrypted-under-the-mic-counter|{}|start={}", fname, start_class(start)),
                    "the MIC verifies under a full counter under which the port-0 FRMPayload does not decrypt to a sequence of MAC answers",
                    ctx(json!({"frame": hex(bytes), "counter": u.fcnt, "decrypted": hex(&u.plain)})),
                );
            }
        }
        if let Some((pc, pb)) = &prev {
            if pc >> 16 != u.fcnt >> 16 {
                col.event("counter_crossed_16bit");
            }
            if u.fcnt <= *pc {
                let same = pb == bytes;
                if expired_at.map(|e| n >= e).unwrap_or(false) {
                    // the statement's guarantee ends once expiry has been reported
                    col.event("uplink_after_reported_expiry");
                } else {
                    col.violation(
                        &format!(
                            "C06|counter-not-increasing|{}|{}|after-fault={}|{}",
                            if u.fcnt == 0xFFFF_FFFF && *after != "none" { "at-max-after-radio-error".to_string() } else { format!("start={}", start_class(start)) },
                            fname,
                            after,
                            if same { "same-bytes" } else { "different-bytes" }
                        ),
                        "the counter of a data frame handed to the radio is not greater than its predecessor's",
                        ctx(json!({"counter": u.fcnt, "previous": pc, "frame": hex(bytes), "previous_frame": hex(pb), "step": step})),
                    );
                }
            }
        }
        prev = Some((u.fcnt, bytes.clone()));
    }
    Some(calls)
}


/// State-machine devices built with a small radio buffer (the const generic N): frames longer than the
/// buffer but within the window's size limit, authentic or not, are heard in RX1 / RX2 between ordinary
/// transactions. Every data frame handed to the radio is decoded; counters must strictly increase.
fn small_buffer<const N: usize>(reg: crate::regions::Reg, rng: &mut Prng, col: &mut Collector) {
    let mut d: SmallNb<N> = SmallNb::new(reg, rng);
    // the fastest uplink rate: its windows admit frames far longer than the buffer
    let drs = crate::c12::uplink_drs(reg);
    let dr = *drs.iter().max().unwrap();
    d.dev.set_datarate(lorawan_device::region::DR::from(dr));
    let n = rng.range(5, 12);
    let mut last: Option<u32> = None;
    let mut up_min = 0u32;
    let mut fdown = 0u32;
    let mut trace: Vec<String> = vec![];
    let mut prev_bytes: Option<Vec<u8>> = None;
    for i in 0..n {
        let mut script = Script::silent();
        let what = rng.below(5);
        // a frame longer than the buffer: noise, or an authentic downlink with a long payload
        let long = |rng: &mut Prng, fdown: u32| -> Vec<u8> {
            let len = N + 1 + rng.below(20) as usize;
            if rng.bool() {
                let mut v = rng.bytes(len);
                v[0] = 0x60;
                v
            } else {
                d_net_downlink(&d.net, fdown + 1, len)
            }
        };
        match what {
            0 => {}
            1 => {
                fdown += 1;
                script.rx1.push(d.net.downlink(&Down { fcnt: fdown, port: Some(5), payload: &[1, 2], ..Default::default() }));
            }
            2 => script.rx1.push(long(rng, fdown)),
            3 => script.rx2.push(long(rng, fdown)),
            _ => {
                script.rx1.push(long(rng, fdown));
                script.rx2.push(long(rng, fdown));
            }
        }
        if what >= 2 {
            col.event("frames_longer_than_buffer");
        }
        let ev0 = d.ev_len();
        let data = rng.bytes_below(4);
        let r = d.transact(Action::Send { data: &data, port: 3, confirmed: rng.chance(1, 4) }, &script);
        trace.push(format!("{}:{}", ["silent", "rx1-hit", "rx1-long", "rx2-long", "both-long"][what as usize], r.kind()));
        if let Resp::Panic(m, l) = &r {
            col.violation(&format!("C06|panic|small-buffer|{}", short_loc(l)), "device panicked", json!({"msg": m, "loc": l, "buffer": N, "trace": trace}));
            return;
        }
        for bytes in d.tx_since(ev0) {
            let Some(u) = d.net.decode_uplink(&bytes, up_min) else {
                // a counter below the last one does not decode with `min` = last + 1: try from 0
                if let Some(u0) = d.net.decode_uplink(&bytes, 0) {
                    col.violation(
                        &format!("C06|counter-not-increasing|small-buffer|nb|buf={}|{}", N, if prev_bytes.as_ref() == Some(&bytes) { "same-bytes" } else { "different-bytes" }),
                        "the counter of a data frame handed to the radio is not greater than its predecessor's",
                        json!({"region": reg.name(), "buffer": N, "counter": u0.fcnt, "previous": last, "trace": trace, "step": i}),
                    );
                } else {
                    col.violation(&format!("C06|undecodable-uplink|small-buffer|buf={}", N), "uplink does not decode under the session keys", json!({"frame": hex(&bytes), "trace": trace}));
                }
                return;
            };
            col.event("uplinks_decoded");
            last = Some(u.fcnt);
            up_min = u.fcnt + 1;
            prev_bytes = Some(bytes);
        }
    }
    col.eval(&format!("small-buffer|{}|buf={}|{}", reg.name(), N, trace.iter().map(|t| t.split(':').next().unwrap_or("")).collect::<Vec<_>>().join(",")));
}

/// An authentic unconfirmed downlink of `len` octets in all.
fn d_net_downlink(net: &Net, fcnt: u32, len: usize) -> Vec<u8> {
    let payload = vec![0x5A; len.saturating_sub(13)];
    net.downlink(&Down { fcnt, port: Some(9), payload: &payload, ..Default::default() })
}
