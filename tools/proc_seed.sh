#!/bin/bash
# tools/proc_seed.sh <Cxx> <variant> <demo dest> "<demo cmd>" <harness crate> "<props>"  (round-2 seeds in /tmp/seed2-Cxx/OUT/<variant>)
p=$1; v=$2; dest=$3; cmd=$4; crate=$5; props=$6
d=/tmp/${SEED_BASE:-seed2}-$p/OUT/$v
cmd=$(echo "$cmd" | sed "s#cd /tmp/[a-zA-Z0-9-]* && ##")
/verif/tools/verify_seed.sh $d "$dest" "$cmd" 2>&1 | cut -c1-260
/verif/tools/mutant.sh s-$p$v $crate "$props" $d/patch.diff 2>&1 | cut -c1-260
