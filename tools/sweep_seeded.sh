#!/bin/bash
# Re-runs the monitors against every kept seeded change (scratch worktrees only) and prints one
# line per change (plus one sample signature). Usage: tools/sweep_seeded.sh [ids...]
# A change whose own property's check is not the one that catches it names the catching check in
# meta.json ("sweep_with").
cd "$(dirname "$0")/.."
crate_of() { case $1 in C01|C02|C03|C19) echo lrv-codec;; C13) echo lrv-phyref;; C14|C18) echo lrv-chip;; C15|C16|C17) echo lrv-phy;; *) echo lrv-mac;; esac; }
ids=${@:-$(ls seeded)}
for id in $ids; do
  p=${id:0:3}
  crate=$(crate_of $p); props=$p
  sw=$(python3 -c "import json,sys;j=json.load(open('seeded/$id/meta.json')).get('sweep_with');print(j['crate'],j['props']) if j else None" 2>/dev/null)
  if [ -n "$sw" ] && [ "$sw" != "None" ]; then crate=${sw%% *}; props=${sw#* }; fi
  # a change whose patch was written for an earlier commit of /repo (code repaired since) names it in meta.json
  rev=$(python3 -c "import json;print(json.load(open('seeded/$id/meta.json')).get('repo_rev') or 'HEAD')" 2>/dev/null)
  SEED_REPO_REV=${rev:-HEAD} MUT_SHOW=1 tools/mutant.sh s-$id $crate "$props" /verif/seeded/$id/patch.diff 2>&1 | grep -E "^MUTANT|^    C[0-9]" | cut -c1-220
done
