#!/bin/sh
# Offline build of every monitor binary (verif profile). Re-run by each check anyway
# (incremental), so this only warms the cache after a fresh restore.
set -e
cd "$(dirname "$0")/harness"
export CARGO_NET_OFFLINE=true
cargo build --profile verif --workspace 2>&1 | tail -3
