//! A positional ("non-self-describing") view of a serialised document, at the serde interface.
//!
//! Compact binary formats that embedded applications persist sessions with (postcard, bincode, ...)
//! write a struct as the sequence of its fields in declaration order, without names, and on the way
//! back hand the struct's visitor a *sequence* (`visit_seq`), never a map. None of those crates is
//! available offline here, so this module reproduces what they do at the `Deserializer` interface
//! over a `serde_json::Value` tree: `deserialize_struct(name, fields, v)` looks the fields up in
//! declaration order and calls `v.visit_seq(..)`; options, newtypes, tuples/arrays and primitives
//! are passed through. Whatever a type's `Deserialize` impl does with a sequence is what it would
//! do with such a format.

use serde::de::{self, DeserializeSeed, Deserializer, SeqAccess, Visitor};
use serde_json::Value;
use std::fmt;

#[derive(Debug)]
pub struct Error(pub String);

impl fmt::Display for Error {
    fn fmt(&self, f: &mut fmt::Formatter<'_>) -> fmt::Result {
        f.write_str(&self.0)
    }
}
impl std::error::Error for Error {}
impl de::Error for Error {
    fn custom<T: fmt::Display>(msg: T) -> Self {
        Error(msg.to_string())
    }
}

pub struct Positional<'a>(pub &'a Value);

struct Seq<'a> {
    items: Vec<&'a Value>,
    pos: usize,
}

impl<'de, 'a> SeqAccess<'de> for Seq<'a> {
    type Error = Error;
    fn next_element_seed<T: DeserializeSeed<'de>>(&mut self, seed: T) -> Result<Option<T::Value>, Error> {
        if self.pos >= self.items.len() {
            return Ok(None);
        }
        let v = self.items[self.pos];
        self.pos += 1;
        seed.deserialize(Positional(v)).map(Some)
    }
    fn size_hint(&self) -> Option<usize> {
        Some(self.items.len() - self.pos)
    }
}

impl<'a> Positional<'a> {
    fn number<'de, V: Visitor<'de>>(&self, visitor: V) -> Result<V::Value, Error> {
        match self.0 {
            Value::Number(n) => {
                if let Some(u) = n.as_u64() {
                    visitor.visit_u64(u)
                } else if let Some(i) = n.as_i64() {
                    visitor.visit_i64(i)
                } else {
                    visitor.visit_f64(n.as_f64().unwrap_or(0.0))
                }
            }
            other => Err(Error(format!("expected a number, found {}", other))),
        }
    }
}

macro_rules! numbers {
    ($($f:ident)*) => { $( fn $f<V: Visitor<'de>>(self, visitor: V) -> Result<V::Value, Error> { self.number(visitor) } )* };
}

impl<'de, 'a> Deserializer<'de> for Positional<'a> {
    type Error = Error;

    fn deserialize_any<V: Visitor<'de>>(self, visitor: V) -> Result<V::Value, Error> {
        // a positional format cannot answer this question; the tree can, for the leaves
        match self.0 {
            Value::Null => visitor.visit_unit(),
            Value::Bool(b) => visitor.visit_bool(*b),
            Value::Number(_) => self.number(visitor),
            Value::String(s) => visitor.visit_str(s),
            Value::Array(a) => visitor.visit_seq(Seq { items: a.iter().collect(), pos: 0 }),
            Value::Object(_) => Err(Error("a positional format does not describe its own structure (deserialize_any on a struct)".into())),
        }
    }
    fn deserialize_bool<V: Visitor<'de>>(self, visitor: V) -> Result<V::Value, Error> {
        match self.0 {
            Value::Bool(b) => visitor.visit_bool(*b),
            other => Err(Error(format!("expected a boolean, found {}", other))),
        }
    }
    numbers!(deserialize_u8 deserialize_u16 deserialize_u32 deserialize_u64 deserialize_i8 deserialize_i16 deserialize_i32 deserialize_i64 deserialize_f32 deserialize_f64);
    fn deserialize_char<V: Visitor<'de>>(self, visitor: V) -> Result<V::Value, Error> {
        self.deserialize_str(visitor)
    }
    fn deserialize_str<V: Visitor<'de>>(self, visitor: V) -> Result<V::Value, Error> {
        match self.0 {
            Value::String(s) => visitor.visit_str(s),
            other => Err(Error(format!("expected a string, found {}", other))),
        }
    }
    fn deserialize_string<V: Visitor<'de>>(self, visitor: V) -> Result<V::Value, Error> {
        self.deserialize_str(visitor)
    }
    fn deserialize_bytes<V: Visitor<'de>>(self, visitor: V) -> Result<V::Value, Error> {
        self.deserialize_seq(visitor)
    }
    fn deserialize_byte_buf<V: Visitor<'de>>(self, visitor: V) -> Result<V::Value, Error> {
        self.deserialize_seq(visitor)
    }
    fn deserialize_option<V: Visitor<'de>>(self, visitor: V) -> Result<V::Value, Error> {
        match self.0 {
            Value::Null => visitor.visit_none(),
            _ => visitor.visit_some(self),
        }
    }
    fn deserialize_unit<V: Visitor<'de>>(self, visitor: V) -> Result<V::Value, Error> {
        visitor.visit_unit()
    }
    fn deserialize_unit_struct<V: Visitor<'de>>(self, _name: &'static str, visitor: V) -> Result<V::Value, Error> {
        visitor.visit_unit()
    }
    fn deserialize_newtype_struct<V: Visitor<'de>>(self, _name: &'static str, visitor: V) -> Result<V::Value, Error> {
        visitor.visit_newtype_struct(self)
    }
    fn deserialize_seq<V: Visitor<'de>>(self, visitor: V) -> Result<V::Value, Error> {
        match self.0 {
            Value::Array(a) => visitor.visit_seq(Seq { items: a.iter().collect(), pos: 0 }),
            other => Err(Error(format!("expected a sequence, found {}", other))),
        }
    }
    fn deserialize_tuple<V: Visitor<'de>>(self, _len: usize, visitor: V) -> Result<V::Value, Error> {
        self.deserialize_seq(visitor)
    }
    fn deserialize_tuple_struct<V: Visitor<'de>>(self, _name: &'static str, _len: usize, visitor: V) -> Result<V::Value, Error> {
        self.deserialize_seq(visitor)
    }
    fn deserialize_map<V: Visitor<'de>>(self, _visitor: V) -> Result<V::Value, Error> {
        Err(Error("maps are not used by the types under test".into()))
    }
    fn deserialize_struct<V: Visitor<'de>>(self, name: &'static str, fields: &'static [&'static str], visitor: V) -> Result<V::Value, Error> {
        match self.0 {
            Value::Object(o) => {
                let mut items = Vec::with_capacity(fields.len());
                for f in fields {
                    match o.get(*f) {
                        Some(v) => items.push(v),
                        None => return Err(Error(format!("the document has no field `{}` of struct {}", f, name))),
                    }
                }
                visitor.visit_seq(Seq { items, pos: 0 })
            }
            other => Err(Error(format!("expected struct {}, found {}", name, other))),
        }
    }
    fn deserialize_enum<V: Visitor<'de>>(self, name: &'static str, _variants: &'static [&'static str], _visitor: V) -> Result<V::Value, Error> {
        Err(Error(format!("enum {} is not used by the types under test", name)))
    }
    fn deserialize_identifier<V: Visitor<'de>>(self, _visitor: V) -> Result<V::Value, Error> {
        Err(Error("a positional format carries no field names".into()))
    }
    fn deserialize_ignored_any<V: Visitor<'de>>(self, visitor: V) -> Result<V::Value, Error> {
        visitor.visit_unit()
    }
    fn is_human_readable(&self) -> bool {
        // (the tree was written by a human-readable serialiser; none of the types under test
        // distinguishes the two, this only keeps both directions consistent)
        true
    }
}

pub fn from_value<'a, T: de::Deserialize<'a>>(v: &Value) -> Result<T, Error> {
    T::deserialize(Positional(v))
}
